"""C19 - generated input files cover exactly the requested parameter grid.

Deductive:
  files            slice of cli.generate_input (the loop over bias ratios, executed for two symbolic ratios): the two iterations write different files
                   (string VC; str() of distinct bias values assumed distinct) - "each bias ratio keeps its own specification"
  direction[P]     utils.get_direction_from_bias_ratio: components >= 0, sum to 1, the biased component eta/(1+eta) (1 at infinity) sits on the chosen axis
  spec.fields      the ranges dict written in one iteration holds this iteration's direction, the parsed sizes and the rate list (dependence on the loop variable only through direction / file name)
Bounded + refutation only (floats): read_range_input yields min + i*step for i = 0..floor((max-min)/step), nothing beyond max - decimal grid; CLI runs read back through the simulator.
"""
import ast, itertools, json, os, random, shutil, tempfile, time, io, contextlib
import numpy as np
import z3
from contracts.common import *
from pyvc.symex import TolerantX, PYSTR_R, PYSTR, to_S, S as SV
from pyvc.values import Alt
from pyvc.runner import Ob

PROPERTY = 'C19'
LEVEL = 'other'
EXPLANATION = ('file-name injectivity and noise direction as VCs (z3 strings / reals) from a slice of generate_input and from get_direction_from_bias_ratio; the float arithmetic of '
               'read_range_input is only refuted/checked on a decimal grid (no floating-point proof for all inputs is realistic)')
ASSUMPTIONS = [
    'A-str: str()/f-string formatting of two distinct bias ratios (ints, floats, inf) gives distinct strings',
    'A-real for the direction formula',
    'slice of generate_input: statements outside the subset are dropped (listed per run in the evidence); the file name and direction do not depend on them (poisoning would make the obligation Unsupported)',
    'A-real: C19.range.* treat the floats of read_range_input as real numbers (proved: no value beyond max, all on the progression, none dropped); the float behaviour on a decimal grid is bounded only',
]
TRUSTED_BASE = ['z3 5.1.0 (strings, reals)', 'pyvc executor (slice mode)']
CLI = 'panqec/cli.py'
UT = 'panqec/utils.py'


def sym_iteration(tag, bias=None):
    m = Module.load(CLI)
    f = m.funcs['generate_input']
    loops = [n for n in f.node.body if isinstance(n, ast.For) and ast.unparse(n.iter) == 'bias_ratios']
    if len(loops) != 1:
        raise Unsupported('generate_input has no single loop over bias_ratios')
    loop = loops[0]
    eta = z3.Real('eta' + tag)
    nratios = z3.Int('n_bias_ratios')
    writes, dumps = [], []

    class Ratios:
        tag = 'ratios'
    ratios = Obj(None, {}, 'ratios')

    def with_(x, st, s, env):
        for it in s.items:
            ce = it.context_expr
            if isinstance(ce, ast.Call) and ast.unparse(ce.func) == 'open':
                path = x.ev(ce.args[0], env, st)
                mode = x.ev(ce.args[1], env, st) if len(ce.args) > 1 else 'r'
                writes.append((st.live, path, mode))
                if it.optional_vars is not None:
                    env[it.optional_vars.id] = Opaque('file')
            else:
                raise Unsupported('with item')
        x.block(s.body, env, st)
    x = TolerantX(m, {'stmt:with': with_, ('len', 'ratios'): lambda x_, st, v: nratios,
                      'json.dump': lambda x_, st, a, k: (dumps.append(a) or NONE)})
    direction_f = get_func(UT, 'get_direction_from_bias_ratio')
    env = {'eta': eta, 'bias_ratios': ratios, 'input_dir': SV(z3.String('input_dir')), 'label': SV(z3.String('label')),
           'bias': E.const(bias) if bias else E([(z3.Int('bias_k') == k, 'XYZ'[k]) for k in range(3)]), 'sizes': E.const('3x3,5x4x2,7'), 'error_rates': Opaque('error_rates'),
           'code_class': Opaque('code_class'), 'noise_class': Opaque('noise_class'), 'decoder_class': E.const('MatchingDecoder'),
           'deformation_name': NONE, 'method': E.const('direct')}
    st = St(z3.And(eta >= 0, z3.Int('bias_k') >= 0, z3.Int('bias_k') <= 2))
    x.block(loop.body, env, st)
    return dict(f=f, x=x, st=st, eta=eta, writes=writes, dumps=dumps, env=env, nratios=nratios, funcs=[f, direction_f])


def ob_files(timeout=60):
    a, b = sym_iteration('1'), sym_iteration('2')
    problems = []
    for s in (a, b):
        if len(s['writes']) != 1:
            problems.append('an iteration performs %d file writes (expected one)' % len(s['writes']))
    if problems:
        return dict(verdict='refuted', model=dict(problems=problems), backend='pyvc-symex', seconds=0, detail='; '.join(problems), kind='plain',
                    functions=[dict(function=f.ref, sha256_16=f.sha) for f in a['funcs']], transparent=[])
    p1, p2 = to_S(a['writes'][0][1]), to_S(b['writes'][0][1])
    # free-variable check first: a name that does not mention the loop variable is refuted outright (the quantified string query is never asked)
    def mentions(term, v):
        return any(mentions(c, v) for c in term.children()) or term.eq(v)
    e1, e2 = a['eta'], b['eta']
    n = a['nratios']
    inj = [z3.Implies(e1 != e2, PYSTR_R(e1) != PYSTR_R(e2))]
    goal = [n >= 2, e1 >= 0, e2 >= 0, e1 != e2, a['writes'][0][0], b['writes'][0][0]] + inj + [p1 == p2]
    r = check(goal, timeout, eval_terms={'file1': p1, 'file2': p2})
    out = result('files', r, a['funcs'], a['x'], goal, detail='dropped statements of the slice: %s' % a['x'].dropped[:12])
    out['dropped_statements'] = a['x'].dropped
    return out


def ob_direction(pauli, timeout=30):
    f = get_func(UT, 'get_direction_from_bias_ratio')
    m = Module.load(UT)
    eta = z3.Real('eta')
    inf = z3.Real('np_inf')
    x = X(m, {})
    st, ret = x.run(f, [E.const(pauli), eta], {})
    if isinstance(ret, Alt):
        ret = x._collapse(ret)
    if not isinstance(ret, D) or set(ret.kv) != {'r_x', 'r_y', 'r_z'}:
        raise Unsupported('direction is not a dict over r_x, r_y, r_z')
    r = {k: Z(v) for k, v in ret.kv.items()}
    biased = r['r_' + pauli.lower()]
    others = [v for k, v in r.items() if k != 'r_' + pauli.lower()]
    want = z3.If(eta == inf, 1, eta / (1 + eta))
    goal = [eta >= 0, inf > 1000000, z3.Or(r['r_x'] + r['r_y'] + r['r_z'] != 1, biased != want, others[0] != others[1], others[0] < 0, biased < 0,
                                           z3.Or([c for c, _, _ in st.raises] + [z3.BoolVal(False)]))]
    return result('direction', check(goal, timeout), [f], x, goal, detail='bias %s' % pauli)


def ob_direction_fresh(timeout=10):
    """the direction dict is a new object on every call: generate_input adds the deformation name to it in place, so a dict shared between calls would carry one
    request's deformation into the next (ownership analysis of the returned value)"""
    from pyvc.effects import Effects
    f = get_func(UT, 'get_direction_from_bias_ratio')
    r = Effects().analyse(f)
    shared = sorted(a for a in r.ret.alias if a.startswith(('global:', 'cache:', 'param:')))
    memo = [ast.unparse(d) for d in f.node.decorator_list if ast.unparse(d.func if isinstance(d, ast.Call) else d).split('.')[-1] in ('lru_cache', 'cache')]
    problems = (['the returned dict may be the shared object %s' % shared] if shared else []) + (['the function is memoised (%s) and returns a mutable dict' % memo] if memo else [])
    return dict(verdict='refuted' if problems else 'discharged', model=dict(problems=problems) if problems else None, backend='pyvc-effects', seconds=0, kind='plain',
                detail='; '.join(problems) or 'every return value is a freshly built dict', functions=[dict(function=f.ref, sha256_16=f.sha)], transparent=[], fresh=True)


def ob_spec_fields(timeout=30):
    s = sym_iteration('1', 'Z')
    problems = []
    if len(s['dumps']) != 1:
        problems.append('json.dump called %d times per iteration' % len(s['dumps']))
    else:
        jd = s['dumps'][0][0]
        try:
            rg = jd.kv['ranges'].kv
            if rg['error_rate'] is not s['env']['error_rates']:
                problems.append('ranges.error_rate is not the parsed rate list')
            em = rg['error_model'].kv
            if em['name'] is not s['env']['noise_class']:
                problems.append('error model name is not the requested noise class')
            params = em['parameters']
            if isinstance(params, Alt):
                params = s['x']._collapse(params)
            if not (isinstance(params, D) and {'r_x', 'r_y', 'r_z'} <= set(params.kv)):
                problems.append('noise parameters are not the direction of this bias ratio')
            if rg['code'].kv['name'] is not s['env']['code_class']:
                problems.append('code name is not the requested code class')
            cps = rg['code'].kv['parameters']
            got = [(conc(c_.kv['L_x']), conc(c_.kv['L_y']), conc(c_.kv['L_z'])) for c_ in cps.items]
            if got != [(3, 3, 3), (5, 4, 2), (7, 7, 7)]:
                problems.append("sizes '3x3,5x4x2,7' parsed as %s" % got)
        except Exception as e:      # noqa
            problems.append('written specification has an unexpected shape: %s' % e)
    return dict(verdict='refuted' if problems else 'discharged', model=dict(problems=problems) if problems else None, backend='pyvc-symex', seconds=0, kind='plain',
                detail='; '.join(problems) or 'one specification per iteration with the direction of this iteration, the requested classes and the rate list; dropped: %s' % s['x'].dropped[:8],
                functions=[dict(function=f.ref, sha256_16=f.sha) for f in s['funcs']], transparent=sorted(s['x'].transparent))


def ob_range(which, timeout=60):
    """arithmetic slice of read_range_input (the two assignments to n_steps and values of the `min:max:step` branch; dropped: the string splitting and float()
    parsing) over REAL numbers: no value beyond max, every value on the progression min + i*step (the last one may be max itself when min + n*step overshoots by the
    1e-9 slack), none of the floor((max-min)/step)+1 progression points <= max dropped, nothing raised"""
    from pyvc.symex import X, St
    m = Module.load(CLI); f = m.funcs['read_range_input']
    br = [n for n in f.node.body if isinstance(n, ast.If) and "':' in specification" in ast.unparse(n.test)]
    if len(br) != 1:
        raise Unsupported('read_range_input has no `min:max:step` branch')
    stmts = [s_ for s_ in br[0].body if isinstance(s_, ast.Assign) and isinstance(s_.targets[0], ast.Name) and s_.targets[0].id in ('n_steps', 'values')]
    if [s_.targets[0].id for s_ in stmts] != ['n_steps', 'values']:
        raise Unsupported('expected the assignments n_steps = ..., values = ...')
    names = {n.id for s_ in stmts for n in ast.walk(s_) if isinstance(n, ast.Name) and isinstance(n.ctx, ast.Load)} - {'int', 'min', 'max', 'range', 'np', 'n_steps', 'i', 'float', 'len'}
    if not names <= {'min_value', 'max_value', 'step'}:
        raise Unsupported('slice reads %s' % sorted(names))
    mn, mx, stp = z3.Reals('mn mx step')
    q = z3.Real('q'); i = z3.Int('i'); k = z3.Int('k')
    x = X(m, {})
    env = {'min_value': mn, 'max_value': mx, 'step': stp}
    pre = z3.And(stp > 0, mx >= mn, q * stp == mx - mn)          # q = (max-min)/step, named so that the solver sees one division
    st = St(pre)
    x.block(stmts, env, st)
    vals = env['values']
    if not isinstance(vals, Arr) or vals.rank != 1:
        raise Unsupported('values is not a 1-D comprehension')
    cnt = Z(vals.shape[0]); vi = Z(vals.f(i))
    raised = z3.Or([c_ for c_, _, _ in st.raises] + [z3.BoolVal(False)])
    base = [pre, i >= 0, i < cnt]
    eps = z3.RealVal('1/1000000000')
    if which == 'no_overshoot':
        goal = base + [z3.Or(vi > mx, raised)]
    elif which == 'on_progression':
        goal = base + [z3.Not(z3.Or(vi == mn + z3.ToReal(i) * stp, z3.And(i == cnt - 1, vi == mx, mn + z3.ToReal(i) * stp - mx <= eps * stp, mn + z3.ToReal(i) * stp > mx)))]
    elif which == 'none_dropped':
        # every k with min + k*step <= max is an index of the list, and the list is no longer than that by more than the one slack element
        goal = [pre, k >= 0, z3.Or(z3.And(mn + z3.ToReal(k) * stp <= mx, k >= cnt), z3.And(k < cnt, mn + z3.ToReal(k) * stp > mx + eps * stp), cnt < 1)]
    else:
        raise KeyError(which)
    r = check(goal, timeout)
    return result('range.' + which, r, [f], x, goal, detail='read_range_input over the reals: ' + which.replace('_', ' '))


def obligations(tier):
    obs = [Ob('C19.files', ob_files, {}, timeout=90), Ob('C19.spec.fields', ob_spec_fields, {}, timeout=60)]
    for p in 'XYZ':
        obs.append(Ob('C19.direction[%s]' % p, ob_direction, dict(pauli=p), timeout=60))
    obs.append(Ob('C19.direction.fresh', ob_direction_fresh, {}, timeout=30, backend='pyvc-effects'))
    for w in ('no_overshoot', 'on_progression', 'none_dropped'):
        obs.append(Ob('C19.range.' + w, ob_range, dict(which=w), timeout=90))
    return obs


# ------------------------------------------------------------------------------------------------ native layer
def native_generate(etas, sizes, prob, bias='Z', deformation=None):
    """run the real `generate-input` command and read the specifications back through the simulator's expansion"""
    from click.testing import CliRunner
    from panqec.cli import cli, read_range_input, read_bias_ratios
    from panqec.simulation._batch_simulation import expand_input_ranges
    from panqec.utils import get_direction_from_bias_ratio
    d = tempfile.mkdtemp(prefix='c19_')
    try:
        args = ['generate-input', '-d', d, '--code_class', 'Toric2DCode', '--decoder_class', 'MatchingDecoder', '-s', sizes, '--bias', bias, '--eta', etas, '--prob', prob]
        if deformation:
            args += ['--deformation_name', deformation]
        r = CliRunner().invoke(cli, args)
        if r.exit_code != 0:
            return 'generate-input failed: %s' % (r.output[-200:] + repr(r.exception))
        files = sorted(os.listdir(os.path.join(d, 'inputs')))
        want_etas = read_bias_ratios(etas)
        if len(files) != len(want_etas):
            return '%d bias ratios requested but %d specification file(s) written: %s' % (len(want_etas), len(files), files)
        want_sizes = []
        for s_ in sizes.split(','):
            L = [int(v) for v in s_.split('x')]
            want_sizes.append((L[0], L[1] if len(L) > 1 else L[0], L[2] if len(L) > 2 else L[0]))
        rates = read_range_input(prob)
        seen_dirs = []
        for fn in files:
            spec = json.load(open(os.path.join(d, 'inputs', fn)))
            runs = expand_input_ranges(spec['ranges'])
            got = sorted(((r_['code']['parameters']['L_x'], r_['code']['parameters']['L_y'], r_['code']['parameters']['L_z']), r_['error_rate']) for r_ in runs)
            want = sorted((s_, p_) for s_ in want_sizes for p_ in rates)
            if got != want:
                return 'file %s expands to %d runs, the (size, rate) grid has %d' % (fn, len(got), len(want))
            pr = runs[0]['error_model']['parameters']
            if abs(pr['r_x'] + pr['r_y'] + pr['r_z'] - 1) > 1e-9:
                return 'direction in %s does not sum to 1' % fn
            seen_dirs.append((round(pr['r_x'], 12), round(pr['r_y'], 12), round(pr['r_z'], 12)))
            if deformation and pr.get('deformation_name') != deformation:
                return 'deformation name not written to %s' % fn
            if not deformation and pr.get('deformation_name') is not None:
                return 'file %s carries the noise deformation %r although none was requested in this call' % (fn, pr.get('deformation_name'))
        want_dirs = []
        for e_ in want_etas:
            dd = get_direction_from_bias_ratio(bias, e_)
            want_dirs.append((round(dd['r_x'], 12), round(dd['r_y'], 12), round(dd['r_z'], 12)))
            rb = 1.0 if e_ == np.inf else e_ / (1 + e_)
            if abs(dd['r_' + bias.lower()] - rb) > 1e-12:
                return 'biased component for eta=%r is %r, expected %r' % (e_, dd['r_' + bias.lower()], rb)
        if sorted(seen_dirs) != sorted(want_dirs):
            return 'directions in the written files %s do not match the requested bias ratios %s' % (sorted(seen_dirs), sorted(want_dirs))
        return None
    finally:
        shutil.rmtree(d, ignore_errors=True)


def native_range(mn, mx, st):
    from panqec.cli import read_range_input
    vals = read_range_input('%r:%r:%r' % (mn, mx, st))
    from fractions import Fraction as F
    n = int((F(repr(mx)) - F(repr(mn))) / F(repr(st)))          # exact decimal arithmetic: floor((max-min)/step)
    if len(vals) != n + 1:
        return 'range %r:%r:%r has %d values, the progression min..max has %d' % (mn, mx, st, len(vals), n + 1)
    for i, v in enumerate(vals):
        if abs(v - float(F(repr(mn)) + i * F(repr(st)))) > 1e-9:
            return 'value %d of %r:%r:%r is %r' % (i, mn, mx, st, v)
    if vals and vals[-1] > mx:
        return 'range %r:%r:%r yields %r beyond max' % (mn, mx, st, vals[-1])
    return None


def replay(r):
    if r['name'].endswith('direction.fresh'):
        # two calls in one process: with a deformation, then without - the second specification must be free of it
        for etas in ('0.5', '1', '0.5,3,inf'):
            why = native_generate(etas, '3x3', '0.1', 'Z', 'XZZX') or native_generate(etas, '3x3', '0.1', 'Z', None)
            if why:
                return dict(confirmed=True, input=dict(eta=etas, sizes='3x3', prob='0.1', history='same request with --deformation_name XZZX first'), detail=why)
        return dict(confirmed=False, detail='a request without deformation after one with a deformation writes no deformation name')
    if '.range.' in r['name']:
        from bounded.util import frac
        m = r.get('model') or {}
        try:
            vals = [float(frac(m[k])) for k in ('mn', 'mx', 'step')]
        except Exception:       # noqa
            vals = None
        tried = ([tuple(round(v, 6) for v in vals)] if vals and vals[2] > 1e-6 else []) + [(0.1, 0.2, 0.01), (0.1, 0.2, 0.03), (0.0, 0.5, 0.05), (0.05, 0.3, 0.1)]
        for mn_, mx_, st_ in tried:
            why = native_range(mn_, mx_, st_)
            if why:
                return dict(confirmed=True, input=dict(range=[mn_, mx_, st_]), detail=why)
        return dict(confirmed=False, detail='read_range_input satisfies the range contract on the model values and 4 decimal ranges')
    if 'files' in r['name'] or 'spec' in r['name']:
        for etas in ('0.5,3', '1,10,inf', '0.5,1,3,10,30,100,inf'):
            for sizes in ('3x3,5x4x2,7', '3x3,5x5', '2x3x4,4x3x2'):          # the first one is the size list of the deductive obligation
                why = native_generate(etas, sizes, '0.1:0.2:0.05')
                if why:
                    return dict(confirmed=True, input=dict(eta=etas, sizes=sizes, prob='0.1:0.2:0.05'), detail=why)
        return dict(confirmed=False, detail='generate-input writes one readable specification per bias ratio for the tried inputs')
    if 'direction' in r['name']:
        from panqec.utils import get_direction_from_bias_ratio
        p = r['name'].split('[')[1][0]
        for e_ in (0, 0.5, 1, 3, 100, np.inf):
            dd = get_direction_from_bias_ratio(p, e_)
            rb = 1.0 if e_ == np.inf else e_ / (1 + e_)
            if abs(sum(dd.values()) - 1) > 1e-12 or abs(dd['r_' + p.lower()] - rb) > 1e-12:
                return dict(confirmed=True, input=dict(pauli=p, eta=e_), detail='direction %r' % dd)
        return dict(confirmed=False, detail='direction formula holds natively')
    return None


def replay_file(data):
    inp = data.get('input') or {}
    if 'eta' in inp and 'sizes' in inp:
        if inp.get('history'):
            native_generate(inp['eta'], inp['sizes'], inp.get('prob', '0.1'), inp.get('bias', 'Z'), 'XZZX')
        why = native_generate(inp['eta'], inp['sizes'], inp.get('prob', '0.1'), inp.get('bias', 'Z'))
    elif 'range' in inp:
        why = native_range(*inp['range'])
    else:
        why = None
    return dict(confirmed=bool(why), detail=why or 'holds', input=inp)


def bounded(tier, seed):
    rnd = random.Random(seed)
    ev, nt, viol, samples = 0, set(), [], []
    # request history in one process: the same request with a deformation, then without (nothing of the first may leak into the second)
    for etas in ('0.5', '1', '0.5,3,inf', 'inf'):
        for bias in 'XZ':
            why = native_generate(etas, '3x3', '0.1', bias, 'XZZX') or native_generate(etas, '3x3', '0.1', bias, None); ev += 2
            if why:
                viol.append(dict(obligation='C19.bounded.history', input=dict(eta=etas, sizes='3x3', prob='0.1', bias=bias, history='same request with --deformation_name XZZX first'), detail=why))
    for etas in ['0.5', '0.5,3', '1,10,inf', '0.5,1,3,10,30,100,inf', '2.5,inf']:
        for sizes in ['3x3', '3x3,5x5,7x7', '2x3,4', '3x3,5x4x2,7', '2x3x4,4x3x2,2x2x3']:
            for prob in ['0.1', '0.1:0.2:0.01', '0.05,0.1']:
                for bias, defo in (('Z', None), ('X', 'XZZX')):
                    if tier == 'quick' and rnd.random() < 0.5:
                        continue
                    why = native_generate(etas, sizes, prob, bias, defo); ev += 1
                    if ',' in etas:
                        nt.add((etas, sizes, prob, bias))
                    if len(samples) < 3 and ',' in etas:
                        samples.append(dict(eta=etas, sizes=sizes, prob=prob, bias=bias, ok=why is None))
                    if why:
                        viol.append(dict(obligation='C19.bounded.generate', input=dict(eta=etas, sizes=sizes, prob=prob, bias=bias), detail=why))
    grid = [0, 0.001, 0.005, 0.01, 0.02, 0.05, 0.1, 0.15, 0.2, 0.25, 0.3, 0.4, 0.5, 0.6, 0.75, 1]
    steps = [0.001, 0.005, 0.01, 0.05, 0.1]
    cases = [(a, b, s_) for a in grid for b in grid if b >= a for s_ in steps if (b - a) / s_ <= 1500]
    if tier == 'quick':
        rnd.shuffle(cases); cases = cases[:300] + [(0.1, 0.3, 0.1), (0.1, 0.2, 0.01), (0, 0.6, 0.005)]
    for a, b, s_ in cases:
        why = native_range(a, b, s_); ev += 1; nt.add(('range', a, b, s_))
        if why:
            viol.append(dict(obligation='C19.bounded.range', input=dict(range=[a, b, s_]), detail=why))
    out, seen = [], set()
    for v in viol:
        if v['obligation'] not in seen:
            seen.add(v['obligation']); out.append(v)
    return dict(bound='generate-input over 5 eta lists x 5 size lists (1-, 2- and 3-component sizes, unequal extents in every position) x 3 rate specs x 2 (bias, deformation); min:max:step on the decimal grid min,max in {0,...,1} (16 values), step in {0.001,0.005,0.01,0.05,0.1}%s' % (' (300 sampled)' if tier == 'quick' else ''),
                evaluations=ev, distinct_nontrivial=len(nt), rule='real CLI command, files read back through expand_input_ranges; exact decimal oracle for the progression', samples=samples, violations=out)
