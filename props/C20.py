"""C20 - visualizer backend serves every offered choice with faithful data.

Deductive (finite, complete): for every lattice class the set of strings stabilizer_type can return on a stabilizer location is
obtained by symbolic execution (symbolic lattice size) with a reachability query per string; for both pictures the visualizer offers
(main.js shows the "Rotated picture" box for every code) gui-config.json must hold a complete drawable description for each of them
and for the qubits, with colour names defined in StabilizerCode.colormap.  Menu tables (codes, decoders) are checked on the AST.
Bounded: Flask test client over code x deformation x picture x sizes; /decode and /new-errors against the library.
"""
import ast, itertools, json, os, random, time
import numpy as np
import z3
from contracts.lattices import *
from contracts.common import result, cover
from pyvc.source import Module, REPO, Unsupported, get_class
from pyvc.values import T, E, eq
from pyvc.solve import check
from pyvc.runner import Ob

PROPERTY = 'C20'
LEVEL = 'other'
EXPLANATION = ('lookup-table completeness: reachable stabilizer-type strings per class (symbolic execution + cover queries, no bound on lattice size) x {kitaev, rotated} against '
               'gui-config.json and the colormap literal - a finite, complete check; request/response faithfulness through the Flask test client is bounded by lattice size')
ASSUMPTIONS = [
    'the visualizer offers both pictures for every code (gui/js/main.js adds the "Rotated picture" checkbox unconditionally) - checked by a text scan of main.js',
    'R-builder summary of the stabilizer coordinates (reachability of each type string is a cover query under S(a))',
    'Flask request routing / json serialisation are not modelled (bounded layer exercises them)',
]
TRUSTED_BASE = ['z3 5.1.0', 'pyvc executor', 'json module']
GUI = 'panqec/gui/_gui.py'
CFG = os.path.join(REPO, 'panqec/codes/gui-config.json')


def colormap():
    m = Module.load('panqec/codes/base/_stabilizer_code.py')
    init = m.classes['StabilizerCode'].methods['__init__']
    for n in ast.walk(init.node):
        if isinstance(n, ast.Assign) and ast.unparse(n.targets[0]) == 'self.colormap':
            return ast.literal_eval(n.value), init
    raise Unsupported('colormap literal not found')


def reachable_types(cls, timeout=60):
    lat, pre = lattice(cls)
    out = {}
    for ar in lat.stab_arities():
        a = [z3.Int('a%d' % i) for i in range(ar)]
        ty = lat.stab_type(a)
        for s_ in sorted({s for _, s in ty.alts}):
            r = check([pre, lat.S_hyp(a), eq(ty, E.const(s_))], timeout, fallbacks=False)
            if r['verdict'] != 'unsat':
                out[s_] = r['verdict']      # sat or unknown: must be served
    return out, lat


def ob_table(cls, timeout=60):
    types, lat = reachable_types(cls, timeout)
    cfg = json.load(open(CFG))
    cmap, initf = colormap()
    problems = []
    if cls not in cfg:
        problems.append('no entry for %s in gui-config.json' % cls)
    else:
        for pic in ('kitaev', 'rotated'):
            tab = cfg[cls].get('stabilizers', {}).get(pic)
            if tab is None:
                problems.append('stabilizers.%s missing' % pic); continue
            for t in types:
                e = tab.get(t)
                if e is None:
                    problems.append('stabilizers.%s has no entry for type %r' % (pic, t)); continue
                for k in ('object', 'color', 'opacity', 'params'):
                    if k not in e:
                        problems.append('stabilizers.%s.%s lacks %r' % (pic, t, k))
                for act in ('activated', 'deactivated'):
                    c = e.get('color', {}).get(act)
                    if c not in cmap:
                        problems.append('stabilizers.%s.%s colour %s=%r not in colormap' % (pic, t, act, c))
            q = cfg[cls].get('qubits', {}).get(pic)
            if not q:
                problems.append('qubits.%s missing' % pic); continue
            for k in ('object', 'color', 'opacity', 'params'):
                if k not in q:
                    problems.append('qubits.%s lacks %r' % (pic, k))
            for p in 'IXYZ':
                if q.get('color', {}).get(p) not in cmap:
                    problems.append('qubits.%s colour %s=%r not in colormap' % (pic, p, q.get('color', {}).get(p)))
    funcs = funcs_of(lat, ['stabilizer_type', 'get_stabilizer_coordinates']) + [initf]
    return dict(verdict='refuted' if problems else 'discharged', model={'class': cls, 'missing': problems[:6]} if problems else None,
                backend='z3-' + z3.get_version_string() + ' (cover queries) + table lookup', seconds=0,
                detail='; '.join(problems[:8]) or 'reachable types %s served in both pictures' % sorted(types),
                vacuity='reachable types: %s' % types, functions=[dict(function=f.ref, sha256_16=f.sha) for f in funcs],
                transparent=sorted(lat.transparent), cls=cls, kind='plain')


def ob_menus(timeout=10):
    """codes / decoders tables of the GUI: every label maps to a library class that exists, no class twice; decoder filter is the allowed_codes rule;
    main.js offers the rotated picture unconditionally"""
    m = Module.load(GUI)
    problems = []
    codes = m.globals.get('codes'); decs = m.globals.get('decoders')
    if not isinstance(codes, ast.Dict) or not isinstance(decs, ast.Dict):
        raise Unsupported('codes/decoders are not dict literals')
    cl = [ast.unparse(v) for v in codes.values]
    if len(set(cl)) != len(cl):
        problems.append('a code class is offered under two labels')
    for c in cl:
        if c not in CLASSES:
            problems.append('offered code class %s is not a library lattice class' % c)
    if set(cl) != set(CLASSES):
        problems.append('library classes not offered: %s' % sorted(set(CLASSES) - set(cl)))
    f = m.classes['GUI'].methods['send_decoder_names']
    src = ast.unparse(f.node)
    want = "if decoder_class.allowed_codes is None or code_id in decoder_class.allowed_codes:"
    if (want not in src or 'code_id = codes[code_name].__name__' not in src or 'for decoder_name, decoder_class in decoders.items()' not in src) and not problems:
        raise Unsupported('source shape of send_decoder_names not recognised')
    js = open(os.path.join(REPO, 'panqec/gui/js/main.js')).read()
    if '.add(params, "rotated")' not in js:
        problems.append('main.js no longer offers the rotated picture unconditionally (assumption of this check)')
    funcs = [f, m.classes['GUI'].methods['_instantiate_code'], m.classes['GUI'].methods['send_code_data']]
    return dict(verdict='refuted' if problems else 'discharged', model=None, backend='pyvc-structural', seconds=0, kind='state',
                detail='; '.join(problems) or '%d code labels -> distinct library classes; decoder filter = allowed_codes rule' % len(cl),
                functions=[dict(function=g.ref, sha256_16=g.sha) for g in funcs], transparent=[])


def ob_noise_wiring(which, timeout=10):
    """/decode and /new-errors build their noise model from the request's noise direction and NOISE deformation (not the code's) - request-key data flow read off the AST"""
    m = Module.load(GUI); g = m.classes['GUI']
    entry = g.methods[which]

    def model_calls(fn, depth=0):
        out = [(fn, n) for n in ast.walk(fn.node) if isinstance(n, ast.Call) and ast.unparse(n.func).split('.')[-1] == 'PauliErrorModel']
        if not out and depth < 2:
            for n in ast.walk(fn.node):
                if isinstance(n, ast.Call) and isinstance(n.func, ast.Attribute) and isinstance(n.func.value, ast.Name) and n.func.value.id == 'self' and n.func.attr in g.methods:
                    out += model_calls(g.methods[n.func.attr], depth + 1)
        return out
    calls = model_calls(entry)
    if len(calls) != 1:
        raise Unsupported('%s: %d PauliErrorModel constructions found' % (which, len(calls)))
    fn, call = calls[0]

    def keys_of(expr, seen=(), cur=None):
        cur = cur or fn
        """request keys an expression is read from, through plain local assignments; None = not resolvable"""
        if isinstance(expr, ast.Constant):
            return set()
        if isinstance(expr, ast.Subscript) and isinstance(expr.slice, ast.Constant) and isinstance(expr.slice.value, str) and isinstance(expr.value, ast.Name):
            return {expr.slice.value}
        if isinstance(expr, ast.Call) and isinstance(expr.func, ast.Attribute) and expr.func.attr == 'get' and expr.args and isinstance(expr.args[0], ast.Constant):
            return {expr.args[0].value}
        if isinstance(expr, ast.Name) and expr.id not in seen and cur is not entry and expr.id in [a_.arg for a_ in cur.node.args.args]:
            # a parameter of the helper that builds the model: resolve the argument at its (single) call site in the request handler
            sites = [n for n in ast.walk(entry.node) if isinstance(n, ast.Call) and isinstance(n.func, ast.Attribute) and n.func.attr == cur.node.name]
            if len(sites) != 1:
                return None
            params = [a_.arg for a_ in cur.node.args.args]
            if params and params[0] == 'self':
                params = params[1:]
            k_ = params.index(expr.id) if expr.id in params else None
            arg_ = sites[0].args[k_] if k_ is not None and k_ < len(sites[0].args) else next((kw.value for kw in sites[0].keywords if kw.arg == expr.id), None)
            return keys_of(arg_, (), entry) if arg_ is not None else None          # names are resolved afresh in the caller's scope
        if isinstance(expr, ast.Name) and expr.id not in seen:
            ks, found = set(), False
            for n in ast.walk(cur.node):
                if isinstance(n, ast.Assign) and any(isinstance(t, ast.Name) and t.id == expr.id for t in n.targets):
                    r = keys_of(n.value, seen + (expr.id,), cur)
                    if r is None:
                        return None
                    ks |= r; found = True
            return ks if found else None
        return None
    arg = call.args[3] if len(call.args) > 3 else next((k.value for k in call.keywords if k.arg == 'deformation_name'), None)
    if arg is None:
        return dict(verdict='refuted', model=dict(problem='no deformation passed'), backend='pyvc-structural', seconds=0, kind='plain',
                    detail='%s constructs the noise model without the requested noise deformation' % which, functions=[dict(function=entry.ref, sha256_16=entry.sha)], transparent=[])
    ks = keys_of(arg)
    if ks is None:
        raise Unsupported('%s: the deformation argument %s is not resolvable to request keys' % (which, ast.unparse(arg)))
    problems = []
    if ks != {'noise_deformation_name'}:
        problems.append("the noise model's deformation is read from request key(s) %s, expected 'noise_deformation_name'" % sorted(ks))
    dir_ok = any(isinstance(n, ast.Subscript) and ast.unparse(n.value) == 'noise_directions' for n in ast.walk(fn.node))
    if not dir_ok:
        raise Unsupported('%s: direction is not looked up in noise_directions' % which)
    return dict(verdict='refuted' if problems else 'discharged', model=dict(problems=problems, keys=sorted(ks)) if problems else None, backend='pyvc-structural', seconds=0, kind='plain',
                detail='; '.join(problems) or 'noise model = PauliErrorModel(*noise_directions[error_model], deformation from noise_deformation_name)',
                functions=[dict(function=f_.ref, sha256_16=f_.sha) for f_ in {entry, fn}], transparent=[], wiring=which)


def ob_fresh(timeout=10):
    """every request works on its own code object: _instantiate_code returns a freshly constructed object (not a cached / module-level one),
    so that the in-place deform() of one request cannot leak into another"""
    from pyvc.effects import Effects
    m = Module.load(GUI); c = m.classes['GUI']
    f = c.methods['_instantiate_code']
    ef = Effects()
    r = ef.analyse(f, self_cls=c)
    shared = sorted(a for a in r.ret.alias if a != 'fresh')
    # a deform call on something that is not fresh
    src = ast.unparse(f.node)
    problems = []
    if shared:
        problems.append('the returned code object may be shared: %s' % shared)
    if 'code.deform(deformation_name)' not in src and not problems:
        raise Unsupported('source shape of _instantiate_code not recognised')
    handlers = [c.methods[n] for n in ('send_code_data', 'send_correction', 'send_random_errors')]
    for h in handlers:
        if 'self._instantiate_code(' not in ast.unparse(h.node):
            problems.append('%s does not build its code through _instantiate_code' % h.qualname)
    return dict(verdict='refuted' if problems else 'discharged', model=dict(problems=problems) if problems else None, backend='pyvc-effects', seconds=0, kind='state',
                detail='; '.join(problems) or 'fresh object per request; handlers all go through _instantiate_code',
                functions=[dict(function=g.ref, sha256_16=g.sha) for g in [f] + handlers + r.funcs[1:]], transparent=[])


def obligations(tier):
    obs = [Ob('C20.menus', ob_menus, {}, timeout=30, kind='state'), Ob('C20.fresh_code_per_request', ob_fresh, {}, timeout=30, kind='state', backend='pyvc-effects'),
           Ob('C20.noise_wiring[send_correction]', ob_noise_wiring, dict(which='send_correction'), timeout=30, backend='pyvc-structural'),
           Ob('C20.noise_wiring[send_random_errors]', ob_noise_wiring, dict(which='send_random_errors'), timeout=30, backend='pyvc-structural')]
    for cls in CLASSES:
        obs.append(Ob('C20.table[%s]' % cls, ob_table, dict(cls=cls), timeout=120))
    return obs


# ------------------------------------------------------------------------------------------------ bounded: Flask client
from bounded import codes as BC    # noqa
from bounded.util import supported    # noqa


def client():
    from panqec.gui import GUI
    g = GUI()
    g.app.config['TESTING'] = True
    return g, g.app.test_client()


def native_code_data(cl, label, cls, size, defo, rotated):
    data = {'Lx': size[0], 'Ly': size[1], 'code_name': label, 'code_deformation_name': defo or 'None', 'rotated_picture': rotated}
    if len(size) == 3:
        data['Lz'] = size[2]
    try:
        resp = cl.post('/code-data', json=data)
    except Exception as e:      # noqa  (TESTING propagates exceptions)
        return 'code-data request raises %s: %s' % (type(e).__name__, e)
    if resp.status_code != 200:
        return 'code-data request returns HTTP %d' % resp.status_code
    out = json.loads(resp.data)
    code = cls(*size)
    if defo:
        code.deform(defo)
    if out['H'] != code.stabilizer_matrix.toarray().tolist():
        return 'H differs from the library parity-check matrix'
    if out['logical_x'] != code.logicals_x.tolist() or out['logical_z'] != code.logicals_z.tolist():
        return 'logicals differ from the library'
    if len(out['qubits']) != code.n or len(out['stabilizers']) != code.n_stabilizers:
        return 'number of drawable qubits/stabilizers differs from n / number of generators'
    for i, q in enumerate(out['qubits']):
        if not all(k in q for k in ('object', 'color', 'opacity', 'params', 'location')):
            return 'qubit %d description incomplete: %s' % (i, sorted(q))
        if [float(v) for v in q['location']][:len(size)] [:2] != [float(v) for v in code.qubit_coordinates[i]][:2] and not rotated:
            return 'qubit %d is not at library index order location' % i
    for i, s_ in enumerate(out['stabilizers']):
        if not all(k in s_ for k in ('object', 'color', 'opacity', 'params', 'location', 'type')):
            return 'stabilizer %d description incomplete: %s' % (i, sorted(s_))
        if s_['type'] != code.stabilizer_type(code.stabilizer_coordinates[i]):
            return 'stabilizer %d type not in library index order' % i
    return None


def native_menus(g, cl):
    import panqec.gui._gui as G
    for label, cls in G.codes.items():
        resp = cl.post('/decoder-names', json={'code_name': label})
        got = set(json.loads(resp.data))
        want = {dn for dn, dc in G.decoders.items() if dc.allowed_codes is None or cls.__name__ in dc.allowed_codes}
        if got != want:
            return 'decoder menu for %s is %s, decoders declaring support are %s' % (label, sorted(got), sorted(want))
        resp = cl.post('/deformation-names', json={'code_name': label})
        if json.loads(resp.data) != list(cls.deformation_names):
            return 'deformation menu for %s differs from the class' % label
    return None


def native_decode(cl, label, cls, size, decoder_label, rnd):
    import panqec.gui._gui as G
    from panqec.error_models import PauliErrorModel
    code = cls(*size)
    em = PauliErrorModel(1 / 3, 1 / 3, 1 / 3)
    e = em.generate(code, 0.1, rng=np.random.default_rng(rnd.randint(0, 10 ** 6)))
    syn = code.measure_syndrome(e)
    data = {'Lx': size[0], 'Ly': size[1], 'code_name': label, 'code_deformation_name': 'None', 'syndrome': np.asarray(syn).tolist(), 'p': 0.1,
            'noise_deformation_name': 'None', 'max_bp_iter': 10, 'alpha': 0.4, 'beta': 0, 'decoder': decoder_label, 'error_model': 'Depolarizing'}
    if len(size) == 3:
        data['Lz'] = size[2]
    import io, contextlib
    with contextlib.redirect_stdout(io.StringIO()):
        resp = cl.post('/decode', json=data)
        kw = {}
        if decoder_label in ('BP-OSD', 'MBP'):
            kw['max_bp_iter'] = 10
        if decoder_label == 'BP-OSD':
            kw['osd_order'] = 0
        if decoder_label == 'MBP':
            kw.update(alpha=0.4, beta=0)
        want = G.decoders[decoder_label](code, em, 0.1, **kw).decode(np.array(np.asarray(syn).tolist()))
    if resp.status_code != 200:
        return '/decode returns HTTP %d' % resp.status_code
    out = json.loads(resp.data)
    if out['x'] != np.asarray(want[:code.n]).tolist() or out['z'] != np.asarray(want[code.n:]).tolist():
        return '/decode result differs from the library decoder %s' % decoder_label
    return None


def native_noise_requests(cl, label, cls, size, code_defo, noise_defo, noise_name, rnd):
    """/new-errors at p = 1 with a pure noise (deterministic) and /decode with BP-OSD, noise deformation independent of the code deformation"""
    import panqec.gui._gui as G
    from panqec.error_models import PauliErrorModel
    import io, contextlib
    code = cls(*size)
    if code_defo:
        code.deform(code_defo)
    em = PauliErrorModel(*G.noise_directions[noise_name], noise_defo)
    base = {'Lx': size[0], 'Ly': size[1], 'code_name': label, 'code_deformation_name': code_defo or 'None', 'noise_deformation_name': noise_defo or 'None', 'error_model': noise_name}
    if len(size) == 3:
        base['Lz'] = size[2]
    with contextlib.redirect_stdout(io.StringIO()):
        resp = cl.post('/new-errors', json=dict(base, p=1.0))
        if resp.status_code != 200:
            return '/new-errors returns HTTP %d' % resp.status_code
        got = json.loads(resp.data)
        want = np.asarray(em.generate(code, 1.0, rng=np.random.default_rng(0))).tolist()
        if not noise_name.startswith('Pure'):
            # a mixed channel is random even at p = 1: only "a Pauli on every qubit, length 2n" can be compared
            if len(got) != 2 * code.n or any(not (got[i] or got[i + code.n]) for i in range(code.n)) or not set(got) <= {0, 1}:
                return '/new-errors (p=1, %s) does not put a Pauli on every qubit: %s...' % (noise_name, got[:8])
        elif got != want:
            return '/new-errors (p=1, %s, noise deformation %s, code deformation %s) returns %s..., the library noise model gives %s...' % (noise_name, noise_defo, code_defo, got[:8], want[:8])
        e = PauliErrorModel(1 / 3, 1 / 3, 1 / 3).generate(code, 0.1, rng=np.random.default_rng(rnd.randint(0, 10 ** 6)))
        syn = np.asarray(code.measure_syndrome(e)).tolist()
        resp = cl.post('/decode', json=dict(base, p=0.1, syndrome=syn, max_bp_iter=10, alpha=0.4, beta=0, decoder='BP-OSD'))
        if resp.status_code != 200:
            return '/decode returns HTTP %d' % resp.status_code
        out = json.loads(resp.data)
        want = G.decoders['BP-OSD'](code, em, 0.1, max_bp_iter=10, osd_order=0).decode(np.array(syn))
    if out['x'] != np.asarray(want[:code.n]).tolist() or out['z'] != np.asarray(want[code.n:]).tolist():
        return '/decode (BP-OSD, %s, noise deformation %s, code deformation %s) differs from the library decoder' % (noise_name, noise_defo, code_defo)
    return None


def replay(r):
    m = r.get('model') or {}
    if r.get('wiring') or 'noise_wiring' in r.get('name', ''):
        import panqec.gui._gui as G
        g, cl = client()
        rnd = random.Random(0)
        for label, cls, size in (('Toric 2D', None, (3, 3)), ('Planar 2D', None, (3, 3))):
            cls = G.codes[label]
            for cd, nd in ((None, 'XZZX'), ('XZZX', None), ('XZZX', 'XY'), (None, 'XY')):
                for nn in ('Pure Z', 'Pure X', 'Pure Y'):
                    try:
                        w = native_noise_requests(cl, label, cls, size, cd, nd, nn, rnd)
                    except Exception as e:      # noqa
                        w = 'raises %s: %s' % (type(e).__name__, e)
                    if w:
                        return dict(confirmed=True, input=dict(code=label, size=list(size), code_deformation=cd, noise_deformation=nd, noise=nn), detail=w)
        return dict(confirmed=False, detail='/decode and /new-errors agree with the library for noise deformations different from the code deformation')
    cls = r.get('cls')
    if not cls:
        return dict(confirmed=None, detail='structural obligation')
    import panqec.gui._gui as G
    g, cl = client()
    label = [k for k, v in G.codes.items() if v.__name__ == cls][0]
    c = G.codes[label]
    size = (2,) * c.dimension if supported(cls, (2,) * c.dimension) else (4,) * c.dimension
    for rotated in (False, True):
        why = native_code_data(cl, label, c, size, None, rotated)
        if why:
            return dict(confirmed=True, input=dict(code=cls, size=list(size), rotated_picture=rotated, deformation=None), detail=why)
    return dict(confirmed=False, detail='code-data request succeeds for both pictures on %s%s' % (cls, size))


def replay_file(data):
    inp = data.get('input') or {}
    import panqec.gui._gui as G
    g, cl = client()
    label = [k for k, v in G.codes.items() if v.__name__ == inp['code']][0]
    why = native_code_data(cl, label, G.codes[label], tuple(inp['size']), inp.get('deformation'), inp.get('rotated_picture', False))
    return dict(confirmed=bool(why), detail=why or 'holds', input=inp)


def bounded(tier, seed):
    import panqec.gui._gui as G
    rnd = random.Random(seed)
    g, cl = client()
    ev, nt, viol, samples = 0, set(), [], []
    t0 = time.time()
    why = native_menus(g, cl); ev += 1
    if why:
        viol.append(dict(obligation='C20.bounded.menus', input={}, detail=why))
    maxn = 250 if tier == 'quick' else 3000
    for label, cls in G.codes.items():
        name = cls.__name__
        sizes = [s for s in itertools.product(range(1, (5 if tier == 'quick' else 9)), repeat=cls.dimension) if supported(name, s)]
        sizes = [s for s in sizes if len(set(s)) == 1 or (max(s) - min(s) == 1)]
        good = []
        for s in sizes:
            try:
                if cls(*s).n <= maxn:
                    good.append(s)
            except Exception:
                pass
        rnd.shuffle(good)
        for size in good[: (2 if tier == 'quick' else 8)]:
            for defo in [None] + list(cls.deformation_names):
                for rotated in (False, True):
                    if time.time() - t0 > (100 if tier == 'quick' else 1500):
                        break
                    w = native_code_data(cl, label, cls, size, defo, rotated)
                    ev += 1; nt.add((name, size, defo, rotated))
                    if len(samples) < 3 and defo and rotated:
                        samples.append(dict(code=name, size=size, deformation=defo, rotated_picture=rotated, ok=w is None))
                    if w:
                        viol.append(dict(obligation='C20.bounded.code-data[%s]' % name, input=dict(code=name, size=list(size), deformation=defo, rotated_picture=rotated), detail=w))
        # request history: after deformed variants were served, the undeformed code of the same size must still be served faithfully
        for size in good[: (2 if tier == 'quick' else 8)]:
            w = native_code_data(cl, label, cls, size, None, False)
            ev += 1; nt.add((name, size, 'None-after-deformed'))
            if w:
                viol.append(dict(obligation='C20.bounded.history[%s]' % name, input=dict(code=name, size=list(size), deformation=None, rotated_picture=False, after='deformed requests for the same size'), detail=w))
        # one decode per offered decoder on the smallest supported size
        if good:
            size = sorted(good)[0]
            for dl, dc in G.decoders.items():
                if dc.allowed_codes is None or name in dc.allowed_codes:
                    if dl == 'MBP' and tier == 'quick':
                        continue
                    try:
                        w = native_decode(cl, label, cls, size, dl, rnd)
                    except Exception as e:      # noqa
                        w = '/decode raises %s: %s' % (type(e).__name__, e)
                    ev += 1
                    if w:
                        viol.append(dict(obligation='C20.bounded.decode[%s,%s]' % (name, dl), input=dict(code=name, size=list(size), decoder=dl), detail=w))
    # /new-errors and /decode with a biased noise whose deformation differs from the code's (every ordered pair of offered deformations incl. none)
    for label, size in (('Toric 2D', (3, 3)), ('Planar 2D', (3, 2)), ('Toric 3D', (2, 2, 2)), ('Rotated Planar 2D', (3, 3))):
        cls = G.codes[label]
        defos = [None] + list(getattr(cls, 'deformation_names', []))
        for cd in defos:
            for nd in defos:
                if cd == nd and cd is not None:
                    continue
                for nn in (('Pure Z', 'Pure X') if tier == 'quick' else ('Pure Z', 'Pure X', 'Pure Y', 'Depolarizing')):
                    try:
                        w = native_noise_requests(cl, label, cls, size, cd, nd, nn, rnd)
                    except Exception as e:      # noqa
                        w = 'raises %s: %s' % (type(e).__name__, e)
                    ev += 1; nt.add((label, size, cd, nd, nn))
                    if w:
                        viol.append(dict(obligation='C20.bounded.noise[%s]' % cls.__name__, input=dict(code=label, size=list(size), code_deformation=cd, noise_deformation=nd, noise=nn), detail=w))
    out, seen = [], set()
    for v in viol:
        if v['obligation'] not in seen:
            seen.add(v['obligation']); out.append(v)
    return dict(bound='/new-errors (p=1, pure noise) and /decode (BP-OSD) for every ordered pair (code deformation, noise deformation) on 4 codes; every offered code x <= %d sizes (n <= %d; cubic and (L,L+1) shapes) x every deformation x both pictures; one /decode per offered decoder on the smallest size' % (2 if tier == 'quick' else 8, maxn),
                evaluations=ev, distinct_nontrivial=len(nt), rule='Flask test client; response compared with the library object built the same way', samples=samples, violations=out)
