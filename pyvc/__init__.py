"""pyvc - verification-condition generator for the Python subset used by panqec.

Re-reads the real source under /repo with `ast` on every run, symbolically executes the
functions named by the sidecar contracts, and emits obligations discharged by z3 / cvc5.
"""
