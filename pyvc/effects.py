"""Effect / frame / dependence analysis over the real AST (DESIGN.md 2.6).

An abstract interpreter that tracks, for every local value,
  alias  - the set of *owners* the object may be (param:<n>, field:<path>, cache:<fn>, ext:<obj>, fresh)
  deps   - the set of *sources* its contents may depend on (param:<n>, field:<path>, extret:<obj>.<m>, extstate:<obj>.<attr>,
           rng:<n>, global-rng, cache:<fn>, const)
and records every in-place write (owner, line, how) and every ambient read.  Obligations over its result are decided
without a solver (back end "pyvc-effects"): a frame clause fails iff a write to a forbidden owner is recorded on some path.

Over-approximation: unknown calls return a fresh object depending on all their arguments and are assumed not to write
their arguments unless listed in MUTATORS / the callee is analysed from source; numpy view/copy rules are the assumed
contracts A-numpy (basic slicing = view, everything else = fresh).
"""
import ast
from .source import Module, Unsupported, FuncSrc, ClassSrc

FRESH = 'fresh'

# numpy / builtin functions returning a fresh object that depends on their arguments
PURE_FRESH = {
    'np.array', 'np.zeros', 'np.ones', 'np.zeros_like', 'np.concatenate', 'np.hstack', 'np.vstack', 'np.logical_and',
    'np.logical_or', 'np.logical_not', 'np.sum', 'np.prod', 'np.all', 'np.any', 'np.log', 'np.exp', 'np.sqrt', 'np.mod',
    'np.add', 'np.where', 'np.nonzero', 'np.count_nonzero', 'np.min', 'np.max', 'np.isclose', 'np.reshape', 'np.unique',
    'int', 'float', 'bool', 'str', 'len', 'list', 'tuple', 'dict', 'set', 'sum', 'min', 'max', 'any', 'all', 'abs', 'range',
    'enumerate', 'zip', 'sorted', 'isinstance', 'print', 'np.setdiff1d', 'np.append', 'np.intersect1d', 'np.union1d',
    'bsparse.from_array', 'bsparse.to_array', 'bsparse.is_sparse', 'csr_matrix', 'bsparse.zero_row', 'bsparse.vstack', 'np.mean',
}
# may alias the argument
MAY_ALIAS = {'np.asarray', 'np.ravel', 'np.squeeze', 'bsparse.to_array'}
# methods that mutate their receiver
MUTATORS = {'sort', 'fill', 'append', 'extend', 'pop', 'update', 'clear', 'remove', 'insert', 'setdefault', 'resize', 'put', 'itemset', 'add', 'discard'}
# methods returning a fresh object
FRESH_METHODS = {'copy', 'astype', 'tolist', 'toarray', 'tocsr', 'dot', 'sum', 'any', 'all', 'reshape_copy', 'nonzero', 'getnnz', 'flatten', 'mean', 'keys', 'values', 'items'}
VIEW_METHODS = {'reshape', 'ravel', 'view', 'T', 'transpose'}
GLOBAL_RNG = ('random.', 'np.random.')


class Val:
    __slots__ = ('alias', 'deps')

    def __init__(self, alias=(), deps=()):
        self.alias = frozenset(alias); self.deps = frozenset(deps)

    def __or__(self, o):
        return Val(self.alias | o.alias, self.deps | o.deps)

    def __repr__(self):
        return 'Val(%s | %s)' % (sorted(self.alias), sorted(self.deps))


class Result:
    def __init__(self):
        self.writes = []        # (owner, lineno, how, funcref)
        self.ambient = []       # (what, lineno, funcref)
        self.ret = Val()
        self.ext_calls = []     # (obj, method, lineno, [arg Vals])
        self.ext_ctx = []       # aligned with ext_calls: (control context at the call, sequence number) - for the dominance ("must precede") test
        self.field_writes = []  # (field, lineno, Val, funcref)
        self.funcs = []
        self.unknown_calls = []
        self.tests = []         # (source text of an undecided branch test, deps, lineno, funcref)


class Effects:
    def __init__(self, nullness=None, class_cfg=None, max_depth=7, forced=None):
        self.forced = forced or {}              # source text of a branch test -> assumed truth value (case split over configuration tests)
        self.nullness = nullness or {}          # param name -> True (is None) / False (not None)
        # per class name: dict(ext={fields holding third-party objects}, attrs={field: ClassSrc analysed from source})
        self.class_cfg = class_cfg or {}
        self.max_depth = max_depth
        self.res = Result()
        self.depth = 0
        self._yielded = [Val()]
        self._ctx = []          # control context: tokens of the conditional regions enclosing the current program point
        self._seq = 0

    # ---------------------------------------------------------------- entry
    def analyse(self, func, arg_vals=None, self_cls=None):
        """analyse FuncSrc; parameters p get Val({param:p},{param:p}) unless given"""
        env = {}
        a = func.node.args
        params = [p.arg for p in a.posonlyargs + a.args + a.kwonlyargs]
        if func.cls is not None and params and params[0] == 'self':
            env['self'] = Val({'self'}, {'self'})
            params = params[1:]
        for p in params:
            env[p] = (arg_vals or {}).get(p, Val({'param:' + p}, {'param:' + p}))
        if a.kwarg:
            env[a.kwarg.arg] = Val({FRESH}, {'param:' + a.kwarg.arg})
        self._cls_stack = [self_cls or func.cls]
        self._func_stack = [func]
        self.res.funcs.append(func)
        ret = self.block(func.node.body, env)
        self.res.ret = ret
        return self.res

    @property
    def cur(self):
        return self._func_stack[-1]

    def _cfg(self):
        cls = self._cls_stack[-1]
        if cls is None:
            return {}
        for c in cls.mro():
            if c.name in self.class_cfg:
                return self.class_cfg[c.name]
        return {}

    @property
    def ext_fields(self):
        return self._cfg().get('ext', set())

    @property
    def attr_classes(self):
        return self._cfg().get('attrs', {})

    # ---------------------------------------------------------------- statements
    def block(self, body, env):
        ret = Val()
        for s in body:
            r = self.stmt(s, env)
            if r is not None:
                ret = ret | r
            if not isinstance(s, ast.Return) and any(isinstance(n_, ast.Return) for n_ in ast.walk(s)):
                # the rest of this function runs only if the compound statement did not return: conditional region up to the function's end
                self._ctx.append(('after-return', id(s)))
        return ret

    def region(self, token, fn):
        n_ = len(self._ctx)
        self._ctx.append(token)
        try:
            return fn()
        finally:
            del self._ctx[n_:]

    @staticmethod
    def dominates(a, b):
        """(ctx, seq) of call a must-precedes call b: a is earlier and lies in a region enclosing (or equal to) b's"""
        return a[1] < b[1] and len(a[0]) <= len(b[0]) and tuple(b[0][:len(a[0])]) == tuple(a[0])

    def stmt(self, s, env):
        if isinstance(s, ast.Expr):
            self.expr(s.value, env, stmt=True)
        elif isinstance(s, (ast.Assign, ast.AnnAssign)):
            if isinstance(s, ast.AnnAssign) and s.value is None:
                return None
            v = self.expr(s.value, env)
            for t in (s.targets if isinstance(s, ast.Assign) else [s.target]):
                self.assign(t, v, env, s.lineno)
        elif isinstance(s, ast.AugAssign):
            v = self.expr(s.value, env)
            t = s.target
            if isinstance(t, ast.Name):
                cur = env.get(t.id, Val())
                # in place for arrays; for immutable scalars a rebinding - recorded as a write only if the target may be a shared object
                self.write(cur, s.lineno, 'augmented assignment to %s' % t.id)
                env[t.id] = Val(cur.alias, cur.deps | v.deps)
            elif isinstance(t, ast.Subscript):
                base = self.expr(t.value, env)
                self.write(base, s.lineno, 'augmented store %s' % ast.unparse(t))
                self._taint_container(t.value, v, env)
            elif isinstance(t, ast.Attribute):
                base = self.expr(t.value, env)
                cur = self.expr(t, env)
                self.write(cur, s.lineno, 'augmented assignment to attribute %s' % ast.unparse(t))
        elif isinstance(s, ast.Return):
            return self.expr(s.value, env) if s.value is not None else Val()
        elif isinstance(s, ast.If):
            known = self.test_known(s.test, env)
            tv = self.expr(s.test, env)
            if known is None:
                src_t = ast.unparse(s.test)
                self.res.tests.append((src_t, tv.deps, s.lineno, self.cur.ref))
                if src_t in self.forced:
                    known = self.forced[src_t]
            if known is True:
                return self.block(s.body, env)
            if known is False:
                return self.block(s.orelse, env)
            e1, e2 = dict(env), dict(env)
            r1 = self.region(('if', id(s), 0), lambda: self.block(s.body, e1)); r2 = self.region(('if', id(s), 1), lambda: self.block(s.orelse, e2))
            for k in set(e1) | set(e2):
                env[k] = e1.get(k, Val()) | e2.get(k, Val())
            return r1 | r2
        elif isinstance(s, (ast.For, ast.While)):
            ret = Val()
            if isinstance(s, ast.For):
                it = self.expr(s.iter, env)
                self.assign(s.target, Val(it.alias, it.deps), env, s.lineno)
            else:
                self.expr(s.test, env)
            for _ in range(2):          # two passes reach the fixpoint for this flat lattice of sets
                e1 = dict(env)
                ret = ret | self.region(('loop', id(s)), lambda: self.block(s.body, e1))
                for k in e1:
                    env[k] = env.get(k, Val()) | e1[k]
                if isinstance(s, ast.While):
                    self.expr(s.test, env)
            ret = ret | self.block(s.orelse, env)
            return ret
        elif isinstance(s, ast.With):
            for it in s.items:
                v = self.expr(it.context_expr, env)
                if it.optional_vars is not None:
                    self.assign(it.optional_vars, v, env, s.lineno)
            return self.block(s.body, env)
        elif isinstance(s, ast.Try):
            r = self.region(('try', id(s)), lambda: self.block(s.body, env)) if s.handlers else self.block(s.body, env)
            for h in s.handlers:
                r = r | self.region(('handler', id(h)), lambda h=h: self.block(h.body, env))
            r = r | self.region(('try-else', id(s)), lambda: self.block(s.orelse, env)) | self.block(s.finalbody, env)
            return r
        elif isinstance(s, (ast.Raise, ast.Pass, ast.Import, ast.ImportFrom, ast.Assert, ast.Break, ast.Continue, ast.Global)):
            if isinstance(s, ast.Assert):
                self.expr(s.test, env)
        elif isinstance(s, ast.FunctionDef):
            env[s.name] = Val({FRESH}, {'const'})
        elif isinstance(s, ast.Delete):
            pass
        else:
            raise Unsupported('effects: stmt %s' % type(s).__name__)
        return None

    def test_known(self, t, env):
        """nullness-driven pruning: `x is None` / `x is not None` / `not x` for configured parameters"""
        if isinstance(t, ast.Compare) and len(t.ops) == 1 and isinstance(t.left, ast.Name) and t.left.id in self.nullness \
                and isinstance(t.comparators[0], ast.Constant) and t.comparators[0].value is None:
            isnone = self.nullness[t.left.id]
            if isinstance(t.ops[0], ast.Is):
                return isnone
            if isinstance(t.ops[0], ast.IsNot):
                return not isnone
        return None

    def assign(self, t, v, env, lineno):
        if isinstance(t, ast.Name):
            env[t.id] = v
        elif isinstance(t, (ast.Tuple, ast.List)):
            for e in t.elts:
                self.assign(e, v, env, lineno)
        elif isinstance(t, ast.Subscript):
            base = self.expr(t.value, env)
            self.expr(t.slice, env)
            self.write(base, lineno, 'subscript store %s' % ast.unparse(t))
            self._taint_container(t.value, v, env)
        elif isinstance(t, ast.Attribute):
            base = self.expr(t.value, env)
            if 'self' in base.alias or any(o.startswith('self:') for o in base.alias):
                pre = '' if 'self' in base.alias else [o for o in base.alias if o.startswith('self:')][0][5:] + '.'
                self.res.field_writes.append((pre + t.attr, lineno, v, self.cur.ref))
                env['self.' + t.attr] = v
            else:
                self.write(base, lineno, 'attribute store %s' % ast.unparse(t))
        elif isinstance(t, ast.Starred):
            self.assign(t.value, v, env, lineno)

    def _taint_container(self, node, v, env):
        """contents of the container now also depend on v"""
        if isinstance(node, ast.Name) and node.id in env:
            env[node.id] = Val(env[node.id].alias, env[node.id].deps | v.deps)

    def write(self, target, lineno, how):
        for o in target.alias:
            if o != FRESH and not o.startswith('extret:'):
                self.res.writes.append((o, lineno, how, self.cur.ref))

    # ---------------------------------------------------------------- expressions
    def expr(self, e, env, stmt=False):
        if e is None:
            return Val()
        if isinstance(e, ast.Constant):
            return Val({FRESH}, {'const'})
        if isinstance(e, ast.Name):
            if e.id in env:
                return env[e.id]
            return Val({'global:' + e.id}, {'global:' + e.id})
        if isinstance(e, ast.Attribute):
            return self.attribute(e, env)
        if isinstance(e, ast.Subscript):
            base = self.expr(e.value, env)
            idx = self.expr(e.slice, env)
            if self.is_basic_index(e.slice, env):
                return Val(base.alias, base.deps | idx.deps)          # view
            return Val({FRESH}, base.deps | idx.deps)                   # advanced indexing / element access copies
        if isinstance(e, (ast.BinOp,)):
            a, b = self.expr(e.left, env), self.expr(e.right, env)
            return Val({FRESH}, a.deps | b.deps)
        if isinstance(e, ast.UnaryOp):
            return Val({FRESH}, self.expr(e.operand, env).deps)
        if isinstance(e, ast.BoolOp):
            v = self.expr(e.values[0], env)
            for k_, x in enumerate(e.values[1:]):
                v = v | self.region(('boolop', id(e), k_), lambda x=x: self.expr(x, env))
            return v
        if isinstance(e, ast.Compare):
            v = self.expr(e.left, env)
            for c in e.comparators:
                v = v | self.expr(c, env)
            return Val({FRESH}, v.deps)
        if isinstance(e, ast.IfExp):
            known = self.test_known(e.test, env)
            self.expr(e.test, env)
            if known is True:
                return self.expr(e.body, env)
            if known is False:
                return self.expr(e.orelse, env)
            return self.region(('ifexp', id(e), 0), lambda: self.expr(e.body, env)) | self.region(('ifexp', id(e), 1), lambda: self.expr(e.orelse, env))
        if isinstance(e, (ast.Tuple, ast.List, ast.Set)):
            v = Val({FRESH}, ())
            for x in e.elts:
                xv = self.expr(x.value if isinstance(x, ast.Starred) else x, env)
                v = Val(v.alias | (xv.alias - {FRESH}), v.deps | xv.deps)     # container holds references to its elements
            return v
        if isinstance(e, ast.Dict):
            v = Val({FRESH}, ())
            for k, x in zip(e.keys, e.values):
                xv = self.expr(x, env)
                v = Val(v.alias | (xv.alias - {FRESH}), v.deps | xv.deps | (self.expr(k, env).deps if k is not None else frozenset()))
            return v
        if isinstance(e, (ast.ListComp, ast.GeneratorExp, ast.SetComp, ast.DictComp)):
            env2 = dict(env)
            v = Val({FRESH}, ())
            n_ctx = len(self._ctx)
            self._ctx.append(('comp', id(e)))
            for g in e.generators:
                it = self.expr(g.iter, env2)
                self.assign(g.target, Val(it.alias, it.deps), env2, getattr(e, 'lineno', 0))
                for c in g.ifs:
                    v = Val(v.alias, v.deps | self.expr(c, env2).deps)
            parts = [e.key, e.value] if isinstance(e, ast.DictComp) else [e.elt]
            for p in parts:
                pv = self.expr(p, env2)
                v = Val(v.alias | (pv.alias - {FRESH}), v.deps | pv.deps)
            del self._ctx[n_ctx:]
            return v
        if isinstance(e, ast.JoinedStr):
            v = Val({FRESH}, {'const'})
            for x in e.values:
                if isinstance(x, ast.FormattedValue):
                    v = Val(v.alias, v.deps | self.expr(x.value, env).deps)
            return v
        if isinstance(e, ast.Call):
            return self.call(e, env)
        if isinstance(e, (ast.Yield, ast.YieldFrom)):
            # generator function: what it yields is what a caller iterating over the call receives
            v = self.expr(e.value, env) if e.value is not None else Val()
            self._yielded[-1] = self._yielded[-1] | v
            return Val({FRESH}, {'const'})
        if isinstance(e, ast.Lambda):
            return Val({FRESH}, {'const'})
        if isinstance(e, ast.Starred):
            return self.expr(e.value, env)
        if isinstance(e, ast.Slice):
            v = Val()
            for x in (e.lower, e.upper, e.step):
                if x is not None:
                    v = v | self.expr(x, env)
            return Val({FRESH}, v.deps)
        raise Unsupported('effects: expr %s' % type(e).__name__)

    def is_basic_index(self, sl, env):
        if isinstance(sl, ast.Slice):
            return True
        if isinstance(sl, ast.Tuple):
            return all(isinstance(x, ast.Slice) or self._is_int_like(x) for x in sl.elts) and any(isinstance(x, ast.Slice) for x in sl.elts)
        return False        # single element / mask / fancy index: a copy (or a scalar)

    def _is_int_like(self, x):
        return isinstance(x, ast.Constant) and isinstance(x.value, int)

    def attribute(self, e, env):
        key = ast.unparse(e)
        if key in env:
            return env[key]
        base = self.expr(e.value, env)
        selfs = [o for o in base.alias if o == 'self' or o.startswith('self:')]
        if selfs:
            pre = '' if selfs[0] == 'self' else selfs[0][5:] + '.'
            if e.attr in self.ext_fields:
                return Val({'ext:' + pre + e.attr}, {'ext:' + pre + e.attr})
            cls = self._cls_stack[-1]
            if cls is not None and cls.lookup(e.attr) is not None and cls.is_property(e.attr):
                return self.call_source(cls.lookup(e.attr), {}, env, e, self_val=base, cls=cls)
            return Val({'field:' + pre + e.attr}, {'field:' + pre + e.attr})
        exts = [o for o in base.alias if o.startswith('ext:')]
        if exts:
            # reading an attribute of a third-party object: unspecified external state (unless it is a bound method, see call())
            return Val({'extstate:%s.%s' % (exts[0][4:], e.attr)}, {'extstate:%s.%s' % (exts[0][4:], e.attr)})
        fields = [o for o in base.alias if o.startswith('field:')]
        if fields:
            f0 = fields[0][6:]
            if f0.split('.')[-1] in self.attr_classes:
                cls = self.attr_classes[f0.split('.')[-1]]
                if cls.lookup(e.attr) is not None and cls.is_property(e.attr):
                    # cached property of a collaborating object (e.g. self.code.x_indices)
                    return Val({'cache:%s.%s' % (f0, e.attr)}, {'field:' + f0})
            return Val({'field:%s.%s' % (f0, e.attr)}, base.deps | {'field:%s.%s' % (f0, e.attr)})
        return Val(base.alias, base.deps)

    def call(self, e, env):
        name = None
        try:
            name = ast.unparse(e.func)
        except Exception:
            pass
        args = [self.expr(a, env) for a in e.args]
        kws = {k.arg: self.expr(k.value, env) for k in e.keywords}
        allv = Val()
        for v in list(args) + list(kws.values()):
            allv = allv | v
        if name is not None:
            if name.startswith(GLOBAL_RNG) and not name.startswith('np.random.default_rng'):
                self.res.ambient.append((name, e.lineno, self.cur.ref))
                return Val({FRESH}, allv.deps | {'global-rng'})
            if name == 'np.random.default_rng':
                if not args and not kws:
                    self.res.ambient.append((name + '()', e.lineno, self.cur.ref))
                    return Val({FRESH}, {'global-rng'})
                return Val({FRESH}, allv.deps)
            if name in ('hash', 'id'):
                # deterministic within a process, used for cache keys; not a source of hidden state (a result that depended on hash ORDER would need a set /
                # dict iteration, which the C02 taint scan covers)
                return Val({FRESH}, allv.deps)
            if name in ('time.time', 'datetime.datetime.now', 'os.getpid'):
                self.res.ambient.append((name, e.lineno, self.cur.ref))
                return Val({FRESH}, allv.deps | {'ambient:' + name})
            if name in PURE_FRESH or name.startswith('np.') and name not in MAY_ALIAS:
                return Val({FRESH}, allv.deps)
            if name in MAY_ALIAS:
                return Val(allv.alias | {FRESH}, allv.deps)
        f = e.func
        if isinstance(f, ast.Attribute):
            recv = self.expr(f.value, env)
            m = f.attr
            # method of self -> analyse callee from source
            if 'self' in recv.alias or any(o.startswith('self:') for o in recv.alias):
                cls = self._cls_stack[-1]
                fs = cls.lookup(m) if cls is not None else None
                if fs is not None:
                    return self.call_source(fs, self._bind(fs, args, kws), env, e, self_val=recv, cls=cls)
            exts = [o for o in recv.alias if o.startswith('ext:')]
            if exts:
                obj = exts[0][4:]
                self.res.ext_calls.append((obj, m, e.lineno, args, kws))
                self._seq += 1
                self.res.ext_ctx.append((tuple(self._ctx), self._seq))
                # assumed contract (A-ext): the returned value is a function of the call's arguments and of the object's configuration
                return Val({'extret:%s.%s' % (obj, m)}, allv.deps | {'extret:%s.%s' % (obj, m)})
            fields = [o for o in recv.alias if o.startswith('field:')]
            if fields and fields[0][6:].split('.')[-1] in self.attr_classes:
                cls = self.attr_classes[fields[0][6:].split('.')[-1]]
                fs = cls.lookup(m)
                if fs is not None:
                    return self.call_source(fs, self._bind(fs, args, kws), env, e, self_val=Val({'self:' + fields[0][6:]}, recv.deps), cls=cls)
            rngs = [o for o in recv.alias if o.startswith('param:') and o[6:] in ('rng',)] + [o for o in recv.alias if o == 'field:_rng' or o == 'field:rng']
            if rngs:
                return Val({FRESH}, allv.deps | recv.deps | {'rng:' + rngs[0]})
            if m in MUTATORS:
                self.write(recv, e.lineno, 'mutating method .%s()' % m)
                return Val({FRESH}, allv.deps | recv.deps)
            if m in FRESH_METHODS:
                return Val({FRESH}, allv.deps | recv.deps)
            if m in VIEW_METHODS:
                return Val(recv.alias, allv.deps | recv.deps)
            self.res.unknown_calls.append((name, e.lineno, self.cur.ref))
            return Val({FRESH}, allv.deps | recv.deps)
        if isinstance(f, ast.Name):
            mod = self.cur.module
            if f.id in mod.funcs:
                fs = mod.funcs[f.id]
                return self.call_source(fs, self._bind(fs, args, kws), env, e)
            r = mod.resolve_import(f.id)
            if r and r[0] == 'func':
                return self.call_source(r[1], self._bind(r[1], args, kws), env, e)
            if f.id in env:
                self.res.unknown_calls.append((name, e.lineno, self.cur.ref))
                return Val({FRESH}, allv.deps | env[f.id].deps)
        self.res.unknown_calls.append((name, e.lineno, self.cur.ref))
        return Val({FRESH}, allv.deps)

    def _bind(self, fs, args, kws):
        a = fs.node.args
        params = [p.arg for p in a.posonlyargs + a.args]
        if fs.cls is not None and params and params[0] == 'self':
            params = params[1:]
        out = dict(zip(params, args))
        out.update({k: v for k, v in kws.items() if k is not None})
        for p, d in zip(params[len(params) - len(a.defaults):], a.defaults):
            if p not in out:
                out[p] = Val({FRESH}, {'const'})
        return out

    def call_source(self, fs, argmap, env, node, self_val=None, cls=None):
        """analyse a callee whose source is in the repository; its writes to parameters are mapped back to the caller's owners"""
        if self.depth >= self.max_depth or fs in self._func_stack:
            self.res.unknown_calls.append((fs.ref + ' (depth/recursion cut)', getattr(node, 'lineno', 0), self.cur.ref))
            v = Val()
            for x in argmap.values():
                v = v | x
            return Val({FRESH}, v.deps)
        cached = any(isinstance(d, ast.Call) and ast.unparse(d.func).endswith('lru_cache') or (isinstance(d, ast.Attribute) and d.attr == 'lru_cache')
                     for d in fs.node.decorator_list)
        sub_env = {}
        a = fs.node.args
        params = [p.arg for p in a.posonlyargs + a.args + a.kwonlyargs]
        if fs.cls is not None and params and params[0] == 'self':
            sub_env['self'] = self_val if self_val is not None else Val({'self'}, {'self'})
            if self_val is not None and 'self' not in self_val.alias and not any(o.startswith('self:') for o in self_val.alias):
                sub_env['self'] = Val({'self:?'}, self_val.deps)
            params = params[1:]
        for p in params:
            sub_env[p] = argmap.get(p, Val({FRESH}, {'const'}))
        if a.kwarg:
            sub_env[a.kwarg.arg] = Val({FRESH}, {'const'})
        self.depth += 1
        self._func_stack.append(fs)
        self._cls_stack.append(cls or fs.cls)
        if fs not in self.res.funcs:
            self.res.funcs.append(fs)
        n_ctx = len(self._ctx)
        self._yielded.append(Val())
        try:
            ret = self.block(fs.node.body, sub_env)
            y_ = self._yielded[-1]
            if y_.alias or y_.deps:
                ret = ret | Val({FRESH} | (y_.alias - {FRESH}), y_.deps)
        finally:
            self._yielded.pop()
            self._cls_stack.pop(); self._func_stack.pop(); self.depth -= 1
            had_early_return = any(t[0] == 'after-return' for t in self._ctx[n_ctx:])
            del self._ctx[n_ctx:]
        # contents of mutable arguments may now depend on what the callee stored into them
        if isinstance(node, ast.Call):
            names = [p.arg for p in a.posonlyargs + a.args]
            if fs.cls is not None and names and names[0] == 'self':
                names = names[1:]
            for p, an in zip(names, node.args):
                if isinstance(an, ast.Name) and an.id in env and p in sub_env:
                    env[an.id] = Val(env[an.id].alias, env[an.id].deps | sub_env[p].deps)
        if cached or (fs.cls is not None and fs.cls.is_property(fs.node.name) and self._returns_cached_field(fs)):
            tag = 'cache:%s' % fs.qualname
            return Val({tag}, ret.deps | {tag})
        return ret

    def _returns_cached_field(self, fs):
        """property of the form `if self._x is None/empty: self._x = ...; return self._x`"""
        last = fs.node.body[-1]
        return isinstance(last, ast.Return) and isinstance(last.value, ast.Attribute) and ast.unparse(last.value).startswith('self._')
