"""Lattice classes: builder rule (R-builder, DESIGN.md 2.3) and symbolic stabilizers/logicals for symbolic lattice size.

R-builder.  A loop nest whose only writes to an accumulator are appends / stores is summarised by its comprehension
semantics:  x in acc  <=>  exists loop variables. range constraints /\\ guards /\\ x = e(vars).
It is implemented by running the ordinary executor with *generic iterations*: every loop over a symbolic range (or
over another accumulator) is executed once with fresh loop variables constrained to the range, and every
append/store is recorded as a generator (bound variables, guard, element).  Side conditions: range steps are
positive literals; the accumulator is written only by append / subscript store (anything else is Unsupported).
"""
import ast
import itertools
import z3
from .source import Unsupported, get_class
from .symex import X, St, TRUE, FALSE
from .values import T, E, M, D, Alt, R, Obj, NONE, Undef, Z, B, conc, eq, ite


class Gen:
    def __init__(self, bound, cond, elem, val=None, approx=False):
        self.bound, self.cond, self.elem, self.val, self.approx = list(bound), cond, elem, val, approx


class Acc:
    """accumulator summarised by generators; `params` are the loop variables in scope when it was created
    (a family of operators indexed by them, e.g. XCube logicals)"""
    def __init__(self, ctx, kind):
        self.ctx, self.kind = ctx, kind
        self.params = list(ctx.bound)
        self.param_cond = ctx.x_live()
        self.gens = []
        self.approx = False
        self.open = True
        self.dedup = False

    # --- protocol used by the executor
    def acc_append(self, x, st, item):
        if self.kind != 'list':
            raise Unsupported('append to dict accumulator')
        self.gens.append(Gen(self.ctx.bound[len(self.params):], st.live, item))

    def acc_store(self, x, st, key, val):
        if isinstance(val, str):
            val = E.const(val)
        if not isinstance(key, T):
            raise Unsupported('accumulator key is not a tuple')
        self.kind = 'dict'
        self.gens.append(Gen(self.ctx.bound[len(self.params):], st.live, key, val))

    def acc_attr(self, x, st, name):
        if name in ('keys', 'copy'):
            return ('accmethod', self, name)
        if name == 'items':
            return ('accmethod', self, name)
        raise Unsupported('accumulator attribute %s' % name)

    def acc_loop(self, x, st, s, env):
        """for <target> in acc: generic iteration over the members"""
        tgt = s.target
        if isinstance(tgt, ast.Tuple):
            vs = [x.fresh_int(getattr(e, 'id', 'v')) for e in tgt.elts]
            val = T(vs)
        else:
            ar = self.arities()
            if len(ar) != 1:
                raise Unsupported('loop over mixed-arity accumulator with a plain target')
            vs = [x.fresh_int(tgt.id + str(k)) for k in range(ar[0])]
            val = T(vs)
        live0 = st.live
        self.ctx.bound += vs
        st.live = z3.And(live0, self.member(vs))
        x.assign(tgt, val, env, st)
        try:
            x.block(s.body, env, st)
        finally:
            del self.ctx.bound[len(self.ctx.bound) - len(vs):]
            st.live = live0

    def acc_comp(self, x, st, e, env, kind):
        g = e.generators[0]
        tgt = g.target
        if not isinstance(tgt, ast.Tuple):
            raise Unsupported('comprehension target')
        vs = [x.fresh_int(getattr(el, 'id', 'v')) for el in tgt.elts]
        env2 = dict(env)
        x.assign(tgt, T(vs), env2, st)
        live0 = st.live
        self.ctx.bound += vs
        try:
            st.live = z3.And(live0, self.member(vs))
            conds = [B(x.ev(c, env2, st)) for c in g.ifs]
            out = Acc(self.ctx, 'dict' if kind == 'dict' else 'list')
            out.params = self.ctx.bound[:len(self.ctx.bound) - len(vs)]
            cond = z3.And([st.live] + conds)
            if kind == 'dict':
                v = x.ev(e.value, env2, st)
                out.gens.append(Gen(vs, cond, x.ev(e.key, env2, st), E.const(v) if isinstance(v, str) else v))
            else:
                out.gens.append(Gen(vs, cond, x.ev(e.elt, env2, st)))
        finally:
            del self.ctx.bound[len(self.ctx.bound) - len(vs):]
            st.live = live0
        return out

    def acc_contains(self, x, st, item):
        if not isinstance(item, T):
            raise Unsupported('membership of non-tuple')
        if self.open:
            # `if c not in acc: acc.append(c)` while acc is being built: de-duplication; as a *set* the result is the same
            self.dedup = True
            return FALSE
        return self.member(item.items)

    def acc_index(self, x, st, key):
        """operator[location] for a dict accumulator: the value stored for that key"""
        if self.kind != 'dict' or not isinstance(key, T):
            raise Unsupported('index into list accumulator')
        return self.value_at(key.items)

    # --- summaries
    def arities(self):
        return sorted({len(g.elem.items) for g in self.gens if isinstance(g.elem, T)})

    def member(self, t, qe=True):
        """quantifier-free membership formula for tuple t (list of z3 ints), parameters left free"""
        t = [Z(v) for v in t]
        key = ('m', len(t))
        if key not in self.ctx.cache.setdefault(id(self), {}):
            vs = [z3.Int('m%d_%d_%d' % (id(self) % 9973, len(t), k)) for k in range(len(t))]
            alts = []
            for g in self.gens:
                if not isinstance(g.elem, T) or len(g.elem.items) != len(vs):
                    continue
                body = z3.And([g.cond] + [Z(a) == b for a, b in zip(g.elem.items, vs)])
                alts.append(z3.Exists(g.bound, body) if g.bound else body)
            f = z3.Or(alts) if alts else FALSE
            f = self.ctx.qe(f)
            self.ctx.cache[id(self)][key] = (vs, f)
        vs, f = self.ctx.cache[id(self)][key]
        return z3.substitute(f, *zip(vs, t))

    def member_pos(self, t, tag='sk'):
        """membership for use as a HYPOTHESIS only (positive polarity): bound variables are replaced by fresh constants
        (Skolemisation), no quantifier elimination needed"""
        t = [Z(v) for v in t]
        alts = []
        for gi, g in enumerate(self.gens):
            if not isinstance(g.elem, T) or len(g.elem.items) != len(t):
                continue
            fresh = [z3.Int('%s_%d_%d_%s' % (tag, id(self) % 9973, gi, b)) for b in g.bound]
            body = z3.And([g.cond] + [Z(a) == b for a, b in zip(g.elem.items, t)])
            alts.append(z3.substitute(body, *zip(g.bound, fresh)) if g.bound else body)
        return z3.Or(alts) if alts else FALSE

    def value_at(self, t):
        """E-valued lookup: Pauli stored at key t (later generators override earlier ones)"""
        t = [Z(v) for v in t]
        alts = []
        for g in self.gens:
            if not isinstance(g.elem, T) or len(g.elem.items) != len(t) or g.val is None:
                continue
            body = z3.And([g.cond] + [Z(a) == b for a, b in zip(g.elem.items, t)])
            if not isinstance(g.val, E):
                raise Unsupported('non-string accumulator value')
            for c, s_ in g.val.alts:
                f = z3.And(body, c)
                alts.append((self.ctx.qe(z3.Exists(g.bound, f)) if g.bound else f, s_))
        # later gens override: build as nested choice
        out = []
        later = FALSE
        for c, s_ in reversed(alts):
            out.append((z3.And(c, z3.Not(later)), s_))
            later = z3.Or(later, c)
        return E(list(reversed(out)))


class Ctx:
    def __init__(self):
        self.bound = []
        self.cache = {}
        self.live = lambda: TRUE

    def x_live(self):
        return self.live()

    def qe(self, f, ms=30000):
        try:
            # qe-light first (destructive equality resolution: a bound loop variable that an element equation defines is substituted away - the
            # common case, milliseconds); the full procedure runs on whatever quantifier is left.  Both are equivalence-preserving.
            g = z3.TryFor(z3.Then(z3.Tactic('qe-light'), z3.Tactic('qe')), ms)(f).as_expr()
            return z3.simplify(g)
        except z3.Z3Exception as e:
            raise Unsupported('quantifier elimination failed or timed out: %s' % str(e)[:80])


class Poison:
    def __init__(self, why):
        self.why = why


class BX(X):
    """builder-mode executor: a guard outside the subset is over-approximated by a fresh Boolean (the summarised set is then a
    SUPERSET of the real one, flagged `approx`); a value outside the subset poisons the names it is assigned to"""
    approx_sites = None

    def st_Assign(self, s, env, st):
        try:
            return X.st_Assign(self, s, env, st)
        except Unsupported as e:
            for t in s.targets:
                for n in ast.walk(t):
                    if isinstance(n, ast.Name):
                        env[n.id] = Poison(str(e))
                    elif not isinstance(n, (ast.Tuple, ast.Store, ast.Load)):
                        raise

    def ev_Name(self, e, env, st):
        v = env.get(e.id)
        if isinstance(v, Poison):
            raise Unsupported('value outside the subset (%s)' % v.why)
        return X.ev_Name(self, e, env, st)

    def st_If(self, s, env, st):
        try:
            self.ev(s.test, dict(env), St(st.live))
        except Unsupported as e:
            c = z3.Bool('approx!%d' % next(self.fresh_id))
            self.approx_sites.append('line %d: %s' % (s.lineno, str(e)[:80]))
            fake = ast.If(test=ast.Name(id='__approx__', ctx=ast.Load()), body=s.body, orelse=s.orelse, lineno=s.lineno)
            env['__approx__'] = c
            return X.st_If(self, fake, env, st)
        return X.st_If(self, s, env, st)


class Lattice:
    def __init__(self, relpath, clsname):
        self.relpath, self.clsname = relpath, clsname
        self.cls = get_class(relpath, clsname)
        self.dim = self.cls.lookup_attr('dimension')
        self.L = tuple(z3.Int('L' + c) for c in 'xyz'[:self.dim])
        self._acc = {}
        self.ctx = Ctx()
        self.transparent = set()
        self.dead = []
        self.approx_sites = []

    # ---------------------------------------------------------------- executors
    def selfobj(self):
        return Obj(self.cls, {'size': T(list(self.L)), '_size': T(list(self.L)),
                              'L_x': self.L[0], 'L_y': self.L[1] if self.dim > 1 else self.L[0],
                              'L_z': self.L[2] if self.dim > 2 else NONE}, 'code')

    def _intr_common(self):
        lat = self

        def is_qubit(x, st, obj, a, k):
            if not isinstance(a[0], T):
                raise Unsupported('is_qubit of non-tuple')
            return lat.Q(a[0].items)

        def is_stab(x, st, obj, a, k):
            loc = a[0]
            if not isinstance(loc, T):
                raise Unsupported('is_stabilizer of non-tuple')
            r = lat.S(loc.items)
            ty = a[1] if len(a) > 1 else k.get('stab_type')
            if ty is not None and not isinstance(ty, type(NONE)):
                tv = lat.stab_type(loc.items, x, st)
                r = z3.And(r, eq(tv, ty))
            return r
        intr = {
            ('method', 'code', 'is_qubit'): is_qubit,
            ('method', 'code', 'is_stabilizer'): is_stab,
            ('attr', 'code', 'qubit_coordinates'): lambda x, st, o: lat.acc('get_qubit_coordinates'),
            ('attr', 'code', 'stabilizer_coordinates'): lambda x, st, o: lat.acc('get_stabilizer_coordinates'),
            ('attr', 'code', 'qubit_index'): lambda x, st, o: lat.acc('get_qubit_coordinates'),
            ('attr', 'code', 'stabilizer_index'): lambda x, st, o: lat.acc('get_stabilizer_coordinates'),
        }
        return intr

    def executor(self, builder=False):
        intr = self._intr_common()
        x = (BX if builder else X)(self.cls.module, intr)
        x.pos_div = True
        if builder:
            x.approx_sites = self.approx_sites
            ctx = self.ctx
            ctx.live = lambda: TRUE
            intr['new:list'] = lambda x_, st: self._new_acc(x_, st, 'list')
            intr['new:dict'] = lambda x_, st: self._new_acc(x_, st, 'dict')
            intr['loop:range'] = self._loop_range
            intr['loop:product'] = self._loop_product
        return x

    def _new_acc(self, x, st, kind):
        a = Acc(self.ctx, kind)
        a.param_cond = st.live
        return a

    def _range_cond(self, v, r):
        stp = conc(r.st)
        if not isinstance(stp, int) or stp <= 0 or isinstance(r.st, z3.ExprRef):
            raise Unsupported('builder: range step must be a positive literal')
        c = [v >= Z(r.a), v < Z(r.b)]
        if stp != 1:
            c.append((v - Z(r.a)) % stp == 0)
        return c

    def _loop_range(self, x, st, s, rng, env):
        if not isinstance(s.target, ast.Name):
            raise Unsupported('builder: loop target')
        v = x.fresh_int(s.target.id)
        live0 = st.live
        self.ctx.bound.append(v)
        st.live = z3.And([live0] + self._range_cond(v, rng))
        env[s.target.id] = v
        try:
            x.block(s.body, env, st)
        finally:
            self.ctx.bound.pop()
            st.live = live0

    def _loop_product(self, x, st, s, ranges, env):
        if len(ranges) == 1 and isinstance(ranges[0], T):
            ranges = ranges[0].items
        names = s.target.elts if isinstance(s.target, ast.Tuple) else None
        if names is None or len(names) != len(ranges):
            raise Unsupported('builder: product target')
        vs, conds = [], []
        for nm, r in zip(names, ranges):
            v = x.fresh_int(nm.id)
            vs.append(v)
            if isinstance(r, R):
                conds += self._range_cond(v, r)
            elif isinstance(r, T):
                conds.append(z3.Or([v == Z(it) for it in r.items]))
            else:
                raise Unsupported('builder: product factor')
            env[nm.id] = v
        live0 = st.live
        self.ctx.bound += vs
        st.live = z3.And([live0] + conds)
        try:
            x.block(s.body, env, st)
        finally:
            del self.ctx.bound[len(self.ctx.bound) - len(vs):]
            st.live = live0

    # ---------------------------------------------------------------- builder summaries
    def acc(self, fname):
        """accumulator summary of a coordinate-list method (cached)"""
        if fname not in self._acc:
            f = self.cls.lookup(fname)
            if f is None:
                raise Unsupported('no method %s' % fname)
            self._acc[fname] = None         # recursion guard
            x = self.executor(builder=True)
            saved = list(self.ctx.bound)
            self.ctx.bound = []
            try:
                st, ret = x.run(f, [], {}, self.selfobj())
            finally:
                self.ctx.bound = saved
            self.transparent |= x.transparent
            if not isinstance(ret, Acc):
                raise Unsupported('%s does not return a built list' % fname)
            ret.open = False
            if st.raises:
                pass
            self._acc[fname] = ret
        if self._acc[fname] is None:
            raise Unsupported('recursive coordinate definition (%s)' % fname)
        return self._acc[fname]

    def Q(self, t):
        return self.acc('get_qubit_coordinates').member(t)

    def S(self, t):
        return self.acc('get_stabilizer_coordinates').member(t)

    def Q_hyp(self, t, tag='q'):
        return self.acc('get_qubit_coordinates').member_pos(t, tag)

    def S_hyp(self, t, tag='s'):
        return self.acc('get_stabilizer_coordinates').member_pos(t, tag)

    def stab_arities(self):
        return self.acc('get_stabilizer_coordinates').arities()

    def qubit_arities(self):
        return self.acc('get_qubit_coordinates').arities()

    # ---------------------------------------------------------------- symbolic methods
    def call(self, mname, args, kwargs=None, x=None, st=None):
        x = x or self.executor()
        f = self.cls.lookup(mname)
        st2, ret = x.run(f, args, kwargs or {}, self.selfobj(), st)
        self.transparent |= x.transparent
        return st2, ret, x

    def stabilizer(self, loc):
        """symbolic get_stabilizer(loc): (M map, St)"""
        st, ret, x = self.call('get_stabilizer', [T(list(loc))])
        if not isinstance(ret, M):
            raise Unsupported('get_stabilizer does not return a dict built by stores')
        return ret, st

    def stab_type(self, loc, x=None, st=None):
        st2, ret, x = self.call('stabilizer_type', [T(list(loc))], x=x, st=None)
        return ret

    def logicals(self, kind):
        """list of accumulators (one per listed logical operator or per family) from get_logicals_x/z"""
        f = self.cls.lookup('get_logicals_' + kind)
        x = self.executor(builder=True)
        saved = list(self.ctx.bound); self.ctx.bound = []
        try:
            st, ret = x.run(f, [], {}, self.selfobj())
        finally:
            self.ctx.bound = saved
        self.transparent |= x.transparent
        if not isinstance(ret, Acc) or ret.kind != 'list':
            raise Unsupported('get_logicals_%s does not return a built list' % kind)
        out = []
        for g in ret.gens:
            if not isinstance(g.elem, Acc):
                raise Unsupported('logical operator is not a built dict')
            out.append((g, g.elem))
        return out


# ------------------------------------------------------------------------------------- operators on maps
def effective(m):
    """entries of a finite map with 'not overwritten later' folded into the guard (pops honoured)"""
    out = []
    for i, (g, k, v) in enumerate(m.entries):
        if v is None:
            continue
        e = g
        for gj, kj, vj in m.entries[i + 1:]:
            if isinstance(kj, T) and len(kj.items) == len(k.items):
                e = z3.And(e, z3.Not(z3.And(gj, eq(k, kj))))
        out.append((e, k, v))
    return out


def pauli_conds(v):
    if isinstance(v, str):
        v = E.const(v)
    return {p: z3.Or([c for c, s in v.alts if s == p] + [FALSE]) for p in 'XYZ'}


def anti(v1, v2):
    """two single-qubit Paulis (E values) anticommute"""
    p1, p2 = pauli_conds(v1), pauli_conds(v2)
    return z3.Or([z3.And(p1[a], p2[b]) for a in 'XYZ' for b in 'XYZ' if a != b])


def anticommute_count(ea, eb):
    """number of qubits on which two operators (lists of effective entries) anticommute"""
    terms = []
    for g1, k1, v1 in ea:
        for g2, k2, v2 in eb:
            if len(k1.items) != len(k2.items):
                continue
            terms.append(z3.If(z3.And(g1, g2, eq(k1, k2), anti(v1, v2)), 1, 0))
    return z3.Sum(terms) if terms else z3.IntVal(0)


def xor_all(conds):
    """parity of the number of true conditions, as a balanced xor tree (no integer sum: the parity of a sum of 0/1 terms is what the SMT core is worst at)"""
    cs = list(conds)
    if not cs:
        return FALSE
    while len(cs) > 1:
        cs = [z3.Xor(cs[i], cs[i + 1]) if i + 1 < len(cs) else cs[i] for i in range(0, len(cs), 2)]
    return cs[0]


def anticommute_odd(ea, eb):
    """two operators (lists of effective entries, keys pairwise distinct within each list) anticommute: they anticommute on an odd number of qubits"""
    conds = []
    for g1, k1, v1 in ea:
        for g2, k2, v2 in eb:
            if len(k1.items) != len(k2.items):
                continue
            conds.append(z3.And(g1, g2, eq(k1, k2), anti(v1, v2)))
    return xor_all(conds)


def concretize_map(m, subst):
    """evaluate a symbolic map under a substitution of constants -> python dict"""
    out = {}
    for g, k, v in m.entries:
        gg = z3.simplify(z3.substitute(g, *subst))
        if not z3.is_true(gg):
            if z3.is_false(gg):
                continue
            raise Unsupported('guard not closed under the substitution: %s' % gg)
        key = tuple(z3.simplify(z3.substitute(Z(c), *subst)).as_long() for c in k.items)
        if v is None:
            out.pop(key, None); continue
        val = None
        for c, s_ in (v.alts if isinstance(v, E) else [(TRUE, v)]):
            if z3.is_true(z3.simplify(z3.substitute(c, *subst))):
                val = s_
        out[key] = val
    return out
