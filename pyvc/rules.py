"""Derived loop rules (DESIGN.md 2.3 / 2.5), each with its syntactic side conditions checked on the AST.

R-pointwise:  for i in range(n): body     where every array store in `body` is at index exactly `i`, every read of an
              array stored in the loop is at index `i`, and no scalar is carried between iterations
              ==>  A'[j] = body-result at i=j for 0<=j<n, A'[j] = A[j] otherwise.
              (the usual inductive invariant "elements < i hold their final value, elements >= i are untouched",
              instantiated mechanically)
"""
import ast
import z3
from .source import Unsupported
from .values import T, E, D, M, Alt, Arr, Obj, Undef, Z, conc, ite
from .symex import Red


def subst(v, i, j):
    """replace z3 int var i by term j inside a value"""
    if isinstance(v, z3.ExprRef):
        return z3.substitute(v, (i, Z(j)))
    if isinstance(v, E):
        return E([(z3.substitute(c, (i, Z(j))), s) for c, s in v.alts])
    if isinstance(v, T):
        return T([subst(x, i, j) for x in v.items], v.kind)
    if isinstance(v, Alt):
        return Alt([(z3.substitute(c, (i, Z(j))), subst(x, i, j)) for c, x in v.alts], v.partial)
    if isinstance(v, D):
        return D({k: subst(x, i, j) for k, x in v.kv.items()})
    return v


def _names(node, ctx):
    return {n.id for n in ast.walk(node) if isinstance(n, ast.Name) and isinstance(n.ctx, ctx)}


def check_pointwise_side_conditions(s):
    """syntactic side conditions of R-pointwise on the For node `s`; returns the set of stored base names"""
    if not isinstance(s.target, ast.Name):
        raise Unsupported('pointwise loop: tuple target')
    iv = s.target.id
    body = ast.Module(body=s.body, type_ignores=[])
    stored = set()
    # names that are nothing but the loop variable: assigned exactly once in the body, at its top level, as `name = <loop variable>` (e.g. the index of a
    # desugared enumerate loop)
    counts = {}
    for n in ast.walk(body):
        if isinstance(n, (ast.Assign, ast.AugAssign, ast.For, ast.comprehension)):
            for t0 in (n.targets if isinstance(n, ast.Assign) else [n.target]):
                for t in ast.walk(t0):
                    if isinstance(t, ast.Name) and isinstance(t.ctx, ast.Store):
                        counts[t.id] = counts.get(t.id, 0) + 1
    same_as_iv = {iv}
    for st_ in s.body:
        if isinstance(st_, ast.Assign) and len(st_.targets) == 1 and isinstance(st_.targets[0], ast.Name) and isinstance(st_.value, ast.Name) \
                and st_.value.id == iv and counts.get(st_.targets[0].id) == 1:
            same_as_iv.add(st_.targets[0].id)
    for n in ast.walk(body):
        if isinstance(n, (ast.Assign, ast.AugAssign)):
            tgts = n.targets if isinstance(n, ast.Assign) else [n.target]
            for t in tgts:
                for sub in ast.walk(t):
                    if isinstance(sub, ast.Subscript) and isinstance(sub.ctx, ast.Store):
                        # innermost index must be the loop variable (A[i] or A[key][i] or A[:, i])
                        sl = sub.slice
                        idx = sl.elts[-1] if isinstance(sl, ast.Tuple) else sl
                        base = sub.value
                        while isinstance(base, ast.Subscript):
                            base = base.value
                        if not (isinstance(idx, ast.Name) and idx.id in same_as_iv):
                            # store into a per-iteration local dict is fine if the dict itself is assigned in the body
                            if isinstance(base, ast.Name) and base.id in _assigned_names(body):
                                continue
                            raise Unsupported('pointwise loop: store at index other than the loop variable (line %d)' % sub.lineno)
                        if isinstance(base, ast.Name):
                            stored.add(base.id)
                        elif isinstance(base, ast.Attribute):
                            stored.add(ast.unparse(base))
        if isinstance(n, (ast.Break, ast.Continue, ast.While, ast.Return)):
            raise Unsupported('pointwise loop: control transfer in body')
    # reads of stored arrays must be at index i (checked on the top of every subscript chain)
    inner = {id(n.value) for n in ast.walk(body) if isinstance(n, ast.Subscript)}
    for n in ast.walk(body):
        if isinstance(n, ast.Subscript) and isinstance(n.ctx, ast.Load) and id(n) not in inner:
            base = n.value
            while isinstance(base, ast.Subscript):
                base = base.value
            nm = base.id if isinstance(base, ast.Name) else ast.unparse(base) if isinstance(base, ast.Attribute) else None
            if nm in stored:
                sl = n.slice
                idx = sl.elts[-1] if isinstance(sl, ast.Tuple) else sl
                if not (isinstance(idx, ast.Name) and idx.id in same_as_iv):
                    raise Unsupported('pointwise loop: read of a stored array at an index other than the loop variable (line %d)' % n.lineno)
    # no loop-carried scalar: every plain name assigned in the body is assigned before it is read
    seen = set()
    for stmt in s.body:
        reads = _names(stmt, ast.Load)
        writes = {t.id for n in ast.walk(stmt) if isinstance(n, (ast.Assign, ast.AugAssign, ast.For, ast.comprehension))
                  for t0 in ((n.targets if isinstance(n, ast.Assign) else [n.target])) for t in ast.walk(t0)
                  if isinstance(t, ast.Name) and isinstance(t.ctx, ast.Store)}
        allw = _assigned_names(body)
        carried = (reads & allw) - seen - writes - {iv}
        if isinstance(stmt, ast.AugAssign) and isinstance(stmt.target, ast.Name) and stmt.target.id not in seen:
            carried.add(stmt.target.id)
        if carried:
            raise Unsupported('pointwise loop: loop-carried variable %s' % sorted(carried))
        seen |= writes
    return stored


def _assigned_names(body):
    out = set()
    for n in ast.walk(body):
        if isinstance(n, (ast.Assign, ast.AugAssign)):
            for t0 in (n.targets if isinstance(n, ast.Assign) else [n.target]):
                if isinstance(t0, ast.Name):
                    out.add(t0.id)
                elif isinstance(t0, ast.Tuple):
                    out |= {e.id for e in t0.elts if isinstance(e, ast.Name)}
        if isinstance(n, ast.For):
            out |= {t.id for t in ast.walk(n.target) if isinstance(t, ast.Name)}
    return out


def _arrays_in(v, path, out):
    if isinstance(v, Arr):
        out.append((path, v))
    elif isinstance(v, D):
        for k, x in v.kv.items():
            _arrays_in(x, path + [('k', k)], out)
    elif isinstance(v, T):
        for k, x in enumerate(v.items):
            _arrays_in(x, path + [('t', k)], out)


def _get(v, path):
    for kind, k in path:
        v = v.kv[k] if kind == 'k' else v.items[k]
    return v


def _set(v, path, new):
    if not path:
        return new
    (kind, k), rest = path[0], path[1:]
    if kind == 'k':
        kv = dict(v.kv); kv[k] = _set(kv[k], rest, new); return D(kv)
    items = list(v.items); items[k] = _set(items[k], rest, new); return T(items, v.kind)


def pointwise_range_loop(x, st, s, rng, env):
    """intrinsic for 'loop:range' implementing R-pointwise"""
    if not (conc(rng.a) == 0 and conc(rng.st) == 1):
        raise Unsupported('pointwise loop: range must be range(n)')
    check_pointwise_side_conditions(s)
    n = Z(rng.b)
    i = x.fresh_int(s.target.id)
    live0 = st.live
    before = {}
    for nm, v in env.items():
        lst = []
        _arrays_in(v, [], lst)
        for path, a in lst:
            before[(nm, tuple(path))] = a
    env2 = dict(env)
    env2[s.target.id] = i
    st.live = z3.And(live0, i >= 0, i < n)
    x.loop_idx.append((i, n))
    x.comp_idx = getattr(x, 'comp_idx', []) + [i]
    try:
        x.block(s.body, env2, st)
    finally:
        x.comp_idx = x.comp_idx[:-1]
    st.live = live0
    for (nm, path), a_old in before.items():
        try:
            a_new = _get(env2[nm], list(path))
        except Exception:
            raise Unsupported('pointwise loop: array container changed shape')
        if a_new is a_old or not isinstance(a_new, Arr):
            continue

        def f(*idx, a_new=a_new, a_old=a_old):
            j = idx[-1]
            inside = z3.And(Z(j) >= 0, Z(j) < n)
            return ite(inside, subst(a_new.f(*idx), i, j), a_old.f(*idx))
        env[nm] = _set(env[nm], list(path), Arr(a_old.shape, f, a_old.dtype, a_old.owner, a_old.sparse))
        st.effects.append(('arrwrite', a_old.owner))
    return None


def enumerate_arr_loop(x, st, s, it, env):
    """for i, v in enumerate(arr): body   -- R-pointwise with the element bound as well"""
    arr = it[1]
    if not (isinstance(s.target, ast.Tuple) and len(s.target.elts) == 2 and all(isinstance(e, ast.Name) for e in s.target.elts)):
        raise Unsupported('enumerate target')
    iv, vv = s.target.elts[0].id, s.target.elts[1].id
    fake = ast.For(target=ast.Name(id=iv, ctx=ast.Store()), iter=s.iter, body=s.body, orelse=[], lineno=s.lineno)
    check_pointwise_side_conditions(fake)
    n = Z(arr.shape[0])
    i = x.fresh_int(iv)
    live0 = st.live
    before = {}
    for nm, v in env.items():
        lst = []
        _arrays_in(v, [], lst)
        for path, a in lst:
            before[(nm, tuple(path))] = a
    env2 = dict(env); env2[iv] = i; env2[vv] = arr.f(i)
    st.live = z3.And(live0, i >= 0, i < n)
    x.loop_idx.append((i, n))
    x.block(s.body, env2, st)
    st.live = live0
    for (nm, path), a_old in before.items():
        a_new = _get(env2[nm], list(path))
        if a_new is a_old or not isinstance(a_new, Arr):
            continue

        def f(*idx, a_new=a_new, a_old=a_old):
            j = idx[-1]
            return ite(z3.And(Z(j) >= 0, Z(j) < n), subst(a_new.f(*idx), i, j), a_old.f(*idx))
        env[nm] = _set(env[nm], list(path), Arr(a_old.shape, f, a_old.dtype, a_old.owner, a_old.sparse))
