"""Per-property driver: runs obligations in a process pool, replays counter-models on the real code,
runs the bounded layer, applies known_findings.json, writes evidence, prints VIOLATION lines.

Exit codes: 0 held / 1 violation / 2 undecided (nothing decided, not even bounded) / 3 checker error.
`unknown`, time-outs, tracebacks and Unsupported never map to 1.
"""
import importlib, json, multiprocessing as mp, os, sys, time, traceback, hashlib

VERIF = os.path.dirname(os.path.dirname(os.path.abspath(__file__)))
REPO = os.environ.get('PANQEC_REPO', '/repo')


class Ob:
    """one proof obligation: `fn(**kwargs)` (module-level, run in a worker) returns a result dict"""
    def __init__(self, name, fn, kwargs=None, timeout=120, kind='plain', backend='smt'):
        self.name, self.fn, self.kwargs, self.timeout, self.kind, self.backend = name, fn, kwargs or {}, timeout, kind, backend


def _worker(conn, modname, fname, kwargs):
    try:
        sys.setrecursionlimit(20000)
        from pyvc import symex as _sx
        _sx._FRESH.reset()          # no term of the parent is reused by an obligation (kwargs are plain data), so names may restart
        mod = importlib.import_module(modname)
        r = getattr(mod, fname)(**kwargs)
        r.pop('z3model', None)
        conn.send(r)
    except Exception as e:                                      # noqa
        from pyvc.source import Unsupported
        kind = 'unsupported' if isinstance(e, Unsupported) else 'error'
        conn.send(dict(verdict=kind, detail='%s: %s' % (type(e).__name__, e), trace=traceback.format_exc()[-1500:]))
    finally:
        conn.close()


def run_pool(obs, nproc=None, hard_factor=3.0, budget_s=None):
    """run obligations concurrently, each in its own process with a hard wall-clock limit; after budget_s seconds (whole pool) nothing new is
    started and what is still running is stopped - those obligations are reported 'unknown (time budget)', i.e. lost, never as violations"""
    nproc = nproc or int(os.environ.get('VERIF_NPROC', max(1, (os.cpu_count() or 4))))
    ctx = mp.get_context('fork')
    pending = list(enumerate(obs))
    running = {}
    results = [None] * len(obs)
    t_pool = time.time()
    while pending or running:
        if budget_s is not None and time.time() - t_pool > budget_s:
            for i, ob in pending:
                results[i] = dict(verdict='unknown', detail='not started: time budget of the check (%d s) exhausted' % budget_s, seconds=0, wall=0, name=ob.name, kind=ob.kind, backend=ob.backend)
            pending = []
            for i in list(running):
                p, pc, t0, ob = running[i]
                p.kill(); p.join(timeout=5)
                results[i] = dict(verdict='unknown', detail='stopped: time budget of the check (%d s) exhausted' % budget_s, seconds=time.time() - t0, wall=time.time() - t0,
                                  name=ob.name, kind=ob.kind, backend=ob.backend)
                del running[i]
            break
        while pending and len(running) < nproc:
            i, ob = pending.pop(0)
            pc, cc = ctx.Pipe(duplex=False)
            kw = dict(ob.kwargs)
            p = ctx.Process(target=_worker, args=(cc, ob.fn.__module__, ob.fn.__name__, kw))
            p.start(); cc.close()
            running[i] = (p, pc, time.time(), ob)
        time.sleep(0.01)
        for i in list(running):
            p, pc, t0, ob = running[i]
            res = None
            if pc.poll():
                try:
                    res = pc.recv()
                except EOFError:
                    res = dict(verdict='error', detail='worker died')
            elif not p.is_alive():
                res = dict(verdict='error', detail='worker exited without result (code %s)' % p.exitcode)
            elif time.time() - t0 > ob.timeout * hard_factor + 30:
                p.kill()
                res = dict(verdict='unknown', detail='hard time limit')
            if res is not None:
                p.join(timeout=5)
                res.setdefault('seconds', time.time() - t0)
                res['wall'] = time.time() - t0
                res['name'] = ob.name; res['kind'] = ob.kind
                res.setdefault('backend', ob.backend)
                results[i] = res
                del running[i]
    return results


# ------------------------------------------------------------------------------------ known findings
def load_known():
    p = os.path.join(VERIF, 'known_findings.json')
    if not os.path.exists(p):
        return {'findings': [], 'fixed': []}
    return json.load(open(p))


def known_match(prop, obname, inp):
    """the known finding (dict) covering this violation, or None"""
    for f in load_known().get('findings', []):
        if f['property'] != prop or f['obligation'] != obname:
            continue
        pred = f.get('match')
        if pred is None:
            return f
        try:
            if eval(pred, {'__builtins__': {'min': min, 'max': max, 'len': len, 'all': all, 'any': any, 'tuple': tuple,
                                            'list': list, 'str': str, 'int': int, 'sorted': sorted, 'set': set}},
                    dict(inp or {})):
                return f
        except Exception:
            continue
    return None


# ------------------------------------------------------------------------------------ main driver
def source_digest(funcs):
    out = []
    for f in funcs:
        out.append({'function': f.ref, 'line': f.lineno, 'sha256_16': f.sha})
    return out


def _jsonable(o):
    """dicts with non-string keys (tuples of model values) -> string keys, recursively"""
    if isinstance(o, dict):
        return {(k if isinstance(k, (str, int, float, bool)) or k is None else str(k)): _jsonable(v) for k, v in o.items()}
    if isinstance(o, (list, tuple, set)):
        return [_jsonable(v) for v in o]
    return o


def run_property(mod, tier='quick', seed=0):
    t_start = time.time()
    prop = mod.PROPERTY
    # evidence describes /repo itself: a run against any other tree (PANQEC_REPO=<scratch worktree>, used for mutation experiments) writes elsewhere
    repo_real = os.path.realpath(os.environ.get('PANQEC_REPO', '/repo'))
    ev_dir = os.environ.get('VERIF_EVIDENCE_DIR') or (os.path.join(VERIF, 'evidence') if repo_real == os.path.realpath('/repo') else os.path.join(VERIF, '.scratch', 'evidence'))
    os.makedirs(ev_dir, exist_ok=True)
    os.makedirs(os.path.join(VERIF, 'replays'), exist_ok=True)
    violations, known_hits, notes = [], [], []
    # ---------------- deductive part
    try:
        obs = mod.obligations(tier)
    except Exception as e:                                      # building the obligation list failed
        obs = []
        notes.append('obligation list could not be built: %s: %s' % (type(e).__name__, e))
    # whole-pool budget: a quick check must stay well below a quarter of an hour even on a slow / loaded machine (what does not finish is 'lost', i.e.
    # undecided in this run and listed in the evidence - never a violation); override with VERIF_POOL_BUDGET
    budget = float(os.environ.get('VERIF_POOL_BUDGET', getattr(mod, 'POOL_BUDGET', {}).get(tier, 600 if tier == 'quick' else 7200)))
    results = run_pool(obs, budget_s=budget) if obs else []
    discharged = [r for r in results if r['verdict'] == 'discharged']
    refuted = [r for r in results if r['verdict'] == 'refuted']
    lost = [r for r in results if r['verdict'] in ('unknown', 'unsupported', 'error')]
    need_bounded_search = []
    for r in refuted:
        rep = None
        try:
            rep = mod.replay(r) if hasattr(mod, 'replay') else None
        except Exception as e:                                  # noqa
            rep = dict(confirmed=None, detail='replay crashed: %s: %s' % (type(e).__name__, e))
        r['replay'] = rep
        if rep is not None and rep.get('confirmed') is True:
            kf = known_match(prop, r['name'], rep.get('input'))
            if kf is not None:
                known_hits.append((kf, r)); continue
            violations.append(dict(obligation=r['name'], input=rep.get('input'), detail=rep.get('detail'),
                                   model=r.get('model'), solver=r.get('backend'), how='counterexample replayed on the real code'))
        elif rep is not None and rep.get('confirmed') is False and r.get('kind') == 'plain':
            notes.append('ENGINE-MISMATCH %s: model does not replay (%s); clause left to the bounded layer' % (r['name'], rep.get('detail')))
            r['verdict'] = 'engine-mismatch'; lost.append(r)
        else:
            need_bounded_search.append(r)
    # ---------------- bounded part (always runs: it is also the replay harness)
    bounded = None
    bounded_crashed = False
    try:
        bounded = mod.bounded(tier, seed) if hasattr(mod, 'bounded') else None
    except Exception as e:                                      # noqa
        tb = traceback.extract_tb(e.__traceback__)
        repo_root = os.path.realpath(os.environ.get('PANQEC_REPO', '/repo'))
        inner = ''
        for fr in reversed(tb):         # innermost frame that is either repository code or harness code (third-party frames skipped)
            fn_ = os.path.realpath(fr.filename)
            if fn_.startswith(repo_root + os.sep) or fn_.startswith(os.path.realpath(VERIF) + os.sep):
                inner = fn_
                break
        trace = traceback.format_exc()[-1500:]
        if os.path.realpath(inner).startswith(repo_root + os.sep):
            # the real code raised on an input the bounded harness builds inside the contract's domain: a violation of the
            # no-raise clause of the run-time contract, reproducible by re-running the harness (replay does exactly that)
            violations.append(dict(obligation='%s.bounded.noraise' % prop, input=dict(bounded_crash=True, tier=tier, seed=seed),
                                   detail='the real code raised %s: %s inside the bounded harness\n%s' % (type(e).__name__, e, trace),
                                   how='the real code raised on an in-domain input of the bounded harness'))
        else:
            bounded_crashed = True
        notes.append('bounded layer stopped: %s: %s\n%s' % (type(e).__name__, e, trace))
    if bounded:
        seen_b = set()
        for v in bounded.get('violations', []):
            kf = known_match(prop, v.get('obligation', ''), v.get('input'))
            if kf is not None:
                known_hits.append((kf, v)); continue
            if v.get('obligation') in seen_b:
                continue            # one replay file per failed bounded clause
            seen_b.add(v.get('obligation'))
            violations.append(dict(obligation=v.get('obligation'), input=v.get('input'), detail=v.get('detail'),
                                   how='run-time contract failed on the real code (bounded layer)'))
    for r in need_bounded_search:
        # state-shaped counter-model (inductive step / frame / crash invariant) or no replay available
        kf = known_match(prop, r['name'], (r.get('replay') or {}).get('input') or r.get('model'))
        if kf is not None:
            known_hits.append((kf, r)); continue
        if any(v['obligation'] and v['obligation'].split('/')[0] == r['name'].split('/')[0] for v in violations):
            continue    # the bounded layer already exhibited a failing input for this clause
        violations.append(dict(obligation=r['name'], input=None, detail=r.get('detail'), model=r.get('model'),
                               solver=r.get('backend'), how='obligation refuted by the solver', nofail=True))
    # ---------------- report
    seen_known = set()
    for kf, r in known_hits:
        if kf['id'] in seen_known:
            continue
        seen_known.add(kf['id'])
        print('KNOWN-FINDING: property=%s %s %s' % (prop, kf['id'], kf['what']))
    for n in notes:
        print('NOTE:', n)
    vio_lines = []
    for k, v in enumerate(violations):
        path = os.path.join('replays', '%s-%s.json' % (prop, ''.join(ch if ch.isalnum() or ch in '._-' else '_' for ch in str(v['obligation']))[:80]))
        with open(os.path.join(VERIF, path), 'w') as f:
            json.dump(_jsonable(dict(property=prop, obligation=v['obligation'], how=v['how'], input=v.get('input'), detail=v.get('detail'),
                                     solver_model=v.get('model'), solver=v.get('solver'),
                                     rerun='cd /verif && ./check %s --replay %s' % (prop, path))), f, indent=1, default=str)
        line = 'VIOLATION property=%s replay=%s' % (prop, path)
        if v.get('nofail'):
            line += ' obligation=%s no-failing-input-found' % v['obligation']
        else:
            line = 'VIOLATION property=%s replay=%s' % (prop, path)
        print(line)
        vio_lines.append(line)
    # ---------------- evidence
    funcs = []
    for r in results:
        for f in r.get('functions', []):
            if f not in funcs:
                funcs.append(f)
    backends = {}
    for r in discharged:
        backends[r.get('backend', '?')] = backends.get(r.get('backend', '?'), 0) + 1
    solver_s = sum(r.get('seconds', 0) for r in results)
    slow = sorted(results, key=lambda r: -r.get('seconds', 0))[:5]
    transparent = sorted({t for r in results for t in r.get('transparent', [])})
    samples = []
    for r in results[:3]:
        samples.append({'obligation': r['name'], 'verdict': r['verdict'], 'smt2_head': (r.get('smt2') or '')[:600]})
    if bounded and bounded.get('samples'):
        samples += [{'bounded_case': s} for s in bounded['samples'][:3]]
    n_ob = len(results)
    level = getattr(mod, 'LEVEL', 'other')
    cov = {
        'obligations': n_ob, 'discharged': len(discharged),
        'checker_cmd': './check %s --tier %s' % (prop, tier),
        'trusted_base': list(getattr(mod, 'TRUSTED_BASE', [])),
        'explanation': getattr(mod, 'EXPLANATION', ''),
        'obligation_names': [r['name'] for r in results],
        'obligations_by_backend': backends,
        'solver_seconds': round(solver_s, 2),
        'obligation_seconds': {r['name']: round(r.get('seconds', 0), 2) for r in results},
        'slowest': [{'obligation': r['name'], 'seconds': round(r.get('seconds', 0), 2)} for r in slow],
        'refuted': [{'obligation': r['name'], 'model': r.get('model'), 'replay': r.get('replay')} for r in refuted],
        'undecided_or_lost': [{'obligation': r['name'], 'verdict': r['verdict'], 'detail': str(r.get('detail'))[:300]} for r in lost],
        'proof_complete': n_ob > 0 and len(discharged) == n_ob,
        'clauses_left_to_bounded': {r['name']: r['left_to_bounded'] for r in results if r.get('left_to_bounded')},
        'functions_under_contract': funcs,
        'transparent_helpers': transparent,
        'vacuity': [r.get('vacuity') for r in results if r.get('vacuity')],
        'known_findings_hit': sorted(seen_known),
        'samples': samples or [{'note': 'no obligation built'}],
        'bounded': {k: v for k, v in (bounded or {}).items() if k not in ('violations',)} if bounded else None,
        'evaluations': int((bounded or {}).get('evaluations', 0)) + n_ob,
        'distinct_nontrivial': int((bounded or {}).get('distinct_nontrivial', 0)) + len(discharged),
        'rule': 'deductive: one evaluation per proof obligation, non-trivial iff discharged by a solver / analysis back end; '
                'bounded: ' + str((bounded or {}).get('rule', 'none')),
        'notes': notes,
    }
    if level == 'proof' and not (n_ob > 0 and len(discharged) == n_ob):
        # THIS run did not discharge every obligation (time limit on a loaded machine, a shape outside the subset, a refutation): it is not a proof-level record.
        # The evidence says so instead of carrying the level claimed for the complete run; what was and was not discharged is listed in coverage.
        cov['level_claimed_for_a_complete_run'] = 'proof'
        cov['explanation'] = 'INCOMPLETE RUN (%d of %d obligations discharged): recorded at level "other". ' % (len(discharged), n_ob) + str(cov.get('explanation', ''))
        level = 'other'
    ev = {
        'property_id': prop, 'tier': tier, 'seed': int(seed), 'level': level, 'coverage': cov,
        'assumptions': list(getattr(mod, 'ASSUMPTIONS', [])) + ['transparent helper unfolded at call sites: ' + t for t in transparent],
        'wall_s': round(time.time() - t_start, 2), 'violations': len(violations),
    }
    with open(os.path.join(ev_dir, '%s.json' % prop), 'w') as f:
        json.dump(_jsonable(ev), f, indent=1, default=str)
    print('%s tier=%s obligations=%d discharged=%d refuted=%d lost=%d bounded_evals=%s known=%d violations=%d wall=%.1fs' % (
        prop, tier, n_ob, len(discharged), len(refuted), len(lost), (bounded or {}).get('evaluations'), len(seen_known),
        len(violations), time.time() - t_start))
    if violations:
        return 1
    if bounded_crashed:
        return 3            # checker error inside the harness itself: nothing is claimed
    if n_ob == 0 and not bounded:
        return 2
    if lost and not bounded:
        return 2
    return 0


def main(argv=None):
    import argparse
    ap = argparse.ArgumentParser()
    ap.add_argument('prop')
    ap.add_argument('--tier', default=os.environ.get('VERIF_TIER', 'quick'))
    ap.add_argument('--replay')
    a = ap.parse_args(argv)
    seed = int(os.environ.get('VERIF_SEED', '0') or 0)
    sys.path.insert(0, VERIF)
    mod = importlib.import_module('props.%s' % a.prop)
    if a.replay:
        data = json.load(open(a.replay if os.path.isabs(a.replay) else os.path.join(VERIF, a.replay)))
        if (data.get('input') or {}).get('bounded_crash'):
            try:
                mod.bounded(data['input'].get('tier', 'quick'), data['input'].get('seed', seed))
                r = dict(confirmed=False, detail='the bounded harness completes without an exception on this tree')
            except Exception as e:      # noqa
                r = dict(confirmed=True, detail='%s: %s\n%s' % (type(e).__name__, e, traceback.format_exc()[-1500:]))
            print(json.dumps(r, indent=1, default=str))
            return 1 if r.get('confirmed') else 0
        r = mod.replay_file(data) if hasattr(mod, 'replay_file') else {'detail': 'no native replay for this property', 'confirmed': None}
        print(json.dumps(r, indent=1, default=str))
        return 1 if r.get('confirmed') else 0
    return run_property(mod, a.tier, seed)
