"""Discharging obligations: z3 (python API) first, then cvc5 and the system z3 on the SMT-LIB dump.

Verdicts: 'unsat' (discharged), 'sat' (refuted, with model), 'unknown'.  Time-outs, crashes and
`unknown` are never turned into 'sat'.
"""
import os, re, subprocess, tempfile, time
import z3

Z3_VERSION = 'z3-' + z3.get_version_string()


def model_dict(m):
    out = {}
    for d in m.decls():
        if d.arity() == 0:
            v = m[d]
            out[d.name()] = str(v)
    return out


def _smt2(assertions, logic=None):
    s = z3.Solver()
    s.add(*assertions)
    return s.to_smt2()


def _run_cli(cmd, text, timeout):
    with tempfile.NamedTemporaryFile('w', suffix='.smt2', delete=False) as f:
        f.write(text)
        path = f.name
    try:
        p = subprocess.run(cmd + [path], capture_output=True, text=True, timeout=timeout + 5)
        out = p.stdout.strip().splitlines()
        return (out[0].strip() if out else 'unknown'), p.stdout
    except subprocess.TimeoutExpired:
        return 'unknown', 'timeout'
    finally:
        os.unlink(path)


def _eval_terms(m, terms):
    out = {}
    for k, t in (terms or {}).items():
        try:
            v = m.eval(t, model_completion=True)
            out[k] = str(v)
        except Exception:
            pass
    return out


# ------------------------------------------------------------------------------------- mod-by-lattice-size linearisation
def _var_mods(e, out):
    """application nodes `t mod d` with a non-numeral divisor, anywhere in e (quantifier bodies included)"""
    seen, stack = set(), [e]
    while stack:
        x = stack.pop()
        if x.get_id() in seen:
            continue
        seen.add(x.get_id())
        if z3.is_quantifier(x):
            stack.append(x.body())
        elif z3.is_app(x):
            if x.decl().kind() == z3.Z3_OP_MOD and not z3.is_int_value(x.arg(1)):
                out.append(x)
            stack.extend(x.children())


def _has_bound_var(e):
    seen, stack = set(), [e]
    while stack:
        x = stack.pop()
        if x.get_id() in seen:
            continue
        seen.add(x.get_id())
        if z3.is_var(x):
            return True
        if z3.is_quantifier(x):
            stack.append(x.body())
        elif z3.is_app(x):
            stack.extend(x.children())
    return False


def mod_lemma():
    """assertions whose unsatisfiability is the rewrite rule used by linearise_mod:  d > 0 and -d <= t < 2d  =>  t mod d = ite(t<0, t+d, ite(t>=d, t-d, t))"""
    t, d = z3.Ints('t d')
    return [d > 0, t >= -d, t < 2 * d, t % d != z3.If(t < 0, t + d, z3.If(t >= d, t - d, t))]


def linearise_mod(assertions, per_query_ms=5000):
    """Equivalent list of assertions in which `t mod d` (d not a numeral: a lattice period such as 2*L_x) is replaced by
    ite(t<0, t+d, ite(t>=d, t-d, t)) - but only for the terms for which  d > 0 and -d <= t < 2d  is PROVED from those assertions of the same list
    that contain no such term (the size precondition and the membership hypotheses).  Since the proving assertions are conjuncts of the query, the
    rewritten query has the same models; a term whose range is not proved (or that mentions a bound variable, or nests another such term) is left alone.
    -> (assertions, n_rewritten, n_left)"""
    mods_by = []
    for a in assertions:
        out = []
        _var_mods(a, out)
        mods_by.append(out)
    hyp = [a for a, ms in zip(assertions, mods_by) if not ms]
    todo = {}
    for ms in mods_by:
        for m in ms:
            todo.setdefault(m.get_id(), m)
    if not todo:
        return list(assertions), 0, 0
    s = z3.Solver(); s.set('timeout', per_query_ms); s.add(*hyp)
    subs, left = [], 0
    for m in todo.values():
        t, d = m.arg(0), m.arg(1)
        inner = []
        _var_mods(t, inner); _var_mods(d, inner)
        if inner or _has_bound_var(m):
            left += 1
            continue
        s.push(); s.add(z3.Not(z3.And(d > 0, t >= -d, t < 2 * d)))
        r = s.check(); s.pop()
        if r == z3.unsat:
            subs.append((m, z3.If(t < 0, t + d, z3.If(t >= d, t - d, t))))
        else:
            left += 1
    if not subs:
        return list(assertions), 0, left
    return [z3.substitute(a, *subs) for a in assertions], len(subs), left


def check(assertions, timeout_s=60, fallbacks=True, tactic=None, eval_terms=None, linearise=False):
    """-> dict(verdict, model, backend, seconds, tried); eval_terms: {name: z3 term} evaluated in a counter-model.
    linearise: apply linearise_mod first (same models, see there); the count of rewritten terms is reported under 'linearised'"""
    t0 = time.time()
    tried = []
    if linearise:
        assertions, n_lin, n_left = linearise_mod(assertions)
        r_ = check(assertions, timeout_s, fallbacks, tactic, eval_terms)
        r_['linearised'] = (n_lin, n_left)
        r_['seconds'] = time.time() - t0
        return r_
    s = z3.Solver() if tactic is None else z3.Tactic(tactic).solver()
    s.set('timeout', int(timeout_s * 1000))
    s.add(*assertions)
    r = s.check()
    tried.append((Z3_VERSION, str(r), round(time.time() - t0, 3)))
    if r == z3.unsat:
        return dict(verdict='unsat', model=None, backend=Z3_VERSION, seconds=time.time() - t0, tried=tried)
    if r == z3.sat:
        md = model_dict(s.model()); md.update(_eval_terms(s.model(), eval_terms))
        return dict(verdict='sat', model=md, z3model=s.model(), backend=Z3_VERSION,
                    seconds=time.time() - t0, tried=tried)
    if fallbacks:
        text = _smt2(assertions)
        # z3 gave up early (incompleteness): the other solvers get the full budget.  z3 ran out of time: a hard query - the others get a short budget only,
        # so that one obligation never costs three full time limits
        fb = timeout_s if (time.time() - t0) < 0.8 * timeout_s else min(timeout_s, float(os.environ.get('PYVC_FALLBACK_S', '40')))
        for name, cmd in (('cvc5-1.0.3', ['/usr/bin/cvc5', '--strings-exp', '--tlimit=%d' % int(fb * 1000)]),
                          ('z3-4.8.12', ['/usr/bin/z3', '-T:%d' % int(fb)])):
            t1 = time.time()
            v, _ = _run_cli(cmd, text, fb)
            tried.append((name, v, round(time.time() - t1, 3)))
            if v == 'unsat':
                return dict(verdict='unsat', model=None, backend=name, seconds=time.time() - t0, tried=tried)
            if v == 'sat':
                # model is re-derived with the python API under a longer budget so it can be replayed
                s2 = z3.Solver(); s2.set('timeout', int(timeout_s * 2000)); s2.add(*assertions)
                if s2.check() == z3.sat:
                    md = model_dict(s2.model()); md.update(_eval_terms(s2.model(), eval_terms))
                    return dict(verdict='sat', model=md, z3model=s2.model(), backend=name,
                                seconds=time.time() - t0, tried=tried)
                return dict(verdict='sat', model={}, backend=name, seconds=time.time() - t0, tried=tried)
    return dict(verdict='unknown', model=None, backend='none', seconds=time.time() - t0, tried=tried,
                reason=s.reason_unknown())


def recheck_unsat(assertions, timeout_s=120):
    """second-solver confirmation of an unsat verdict (thorough tier)"""
    text = _smt2(assertions)
    v, _ = _run_cli(['/usr/bin/cvc5', '--strings-exp', '--tlimit=%d' % int(timeout_s * 1000)], text, timeout_s)
    if v in ('unsat', 'sat'):
        return 'cvc5-1.0.3', v
    v, _ = _run_cli(['/usr/bin/z3', '-T:%d' % int(timeout_s)], text, timeout_s)
    return 'z3-4.8.12', v


def minimise(assertions, objectives, timeout_s=20, rounds=24):
    """shrink a counter-model: iteratively bound each objective term (non-negative ints) from above.
    Returns a z3 model or None."""
    s = z3.Solver(); s.set('timeout', int(timeout_s * 1000)); s.add(*assertions)
    if s.check() != z3.sat:
        return None
    best = s.model()
    for obj in objectives:
        # small values first: a descent from a large model value can stall at the round limit, and counter-examples of lattice clauses exist at small sizes
        cur0 = best.eval(obj, model_completion=True)
        for c in (0, 1, 2, 3, 4, 6, 8, 12, 16, 24, 32, 64):
            if not z3.is_int_value(cur0) or cur0.as_long() <= c:
                break
            s.push(); s.add(obj <= c)
            if s.check() == z3.sat:
                best = s.model(); s.pop(); s.add(obj <= best.eval(obj, model_completion=True))
                break
            s.pop()
        for _ in range(rounds):
            cur = best.eval(obj, model_completion=True)
            if not z3.is_int_value(cur):
                break
            s.push(); s.add(obj < cur)
            if s.check() == z3.sat:
                best = s.model(); s.pop(); s.add(obj <= best.eval(obj, model_completion=True))
            else:
                s.pop(); s.add(obj <= cur)
                break
    return best
