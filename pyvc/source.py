"""Loading of the *real* source text (never imports the analysed module)."""
import ast, hashlib, os

REPO = os.environ.get('PANQEC_REPO', '/repo')


class Unsupported(Exception):
    """Construct outside pyvc's subset.  Never a violation: the clause drops to the bounded layer."""


class FuncSrc:
    def __init__(self, path, qualname, node, cls=None, module=None):
        self.path, self.qualname, self.node, self.cls, self.module = path, qualname, node, cls, module
        seg = ast.get_source_segment(module.text, node) or ''
        self.sha = hashlib.sha256(seg.encode()).hexdigest()[:16]
        self.lineno = node.lineno

    @property
    def ref(self):
        return '%s::%s' % (os.path.relpath(self.path, REPO), self.qualname)

    def __repr__(self):
        return 'FuncSrc(%s)' % self.ref


class ClassSrc:
    def __init__(self, module, node):
        self.module, self.node, self.name = module, node, node.name
        self.methods, self.attrs, self.attr_nodes = {}, {}, {}
        for m in node.body:
            if isinstance(m, (ast.FunctionDef,)):
                self.methods[m.name] = FuncSrc(module.path, '%s.%s' % (node.name, m.name), m, self, module)
            elif isinstance(m, ast.Assign) and len(m.targets) == 1 and isinstance(m.targets[0], ast.Name):
                self.attr_nodes[m.targets[0].id] = m.value
                try:
                    self.attrs[m.targets[0].id] = ast.literal_eval(m.value)
                except Exception:
                    pass
            elif isinstance(m, ast.AnnAssign) and isinstance(m.target, ast.Name) and m.value is not None:
                self.attr_nodes[m.target.id] = m.value
                try:
                    self.attrs[m.target.id] = ast.literal_eval(m.value)
                except Exception:
                    pass
        self.base_names = [ast.unparse(b) for b in node.bases]

    def is_property(self, name):
        f = self.lookup(name)
        if f is None:
            return False
        return any((isinstance(d, ast.Name) and d.id == 'property') for d in f.node.decorator_list)

    def mro(self):
        out, seen = [], set()
        todo = [self]
        while todo:
            c = todo.pop(0)
            if id(c) in seen:
                continue
            seen.add(id(c)); out.append(c)
            for b in c.base_names:
                bc = c.module.resolve_class(b)
                if bc is not None:
                    todo.append(bc)
        return out

    def lookup(self, name):
        for c in self.mro():
            if name in c.methods:
                return c.methods[name]
        return None

    def lookup_attr(self, name):
        for c in self.mro():
            if name in c.attrs:
                return c.attrs[name]
        raise KeyError(name)

    def has_attr(self, name):
        return any(name in c.attrs for c in self.mro())


# where `from panqec.X import Name` leads for the names pyvc follows
_PKG_EXPORTS = {
    ('panqec.codes', 'StabilizerCode'): 'panqec/codes/base/_stabilizer_code.py',
    ('panqec.decoders', 'BaseDecoder'): 'panqec/decoders/base/_base_decoder.py',
    ('panqec.error_models', 'BaseErrorModel'): 'panqec/error_models/_base_error_model.py',
    ('.', 'BaseErrorModel'): 'panqec/error_models/_base_error_model.py',
    ('.', 'BaseSimulation'): 'panqec/simulation/_base_simulation.py',
}


class Module:
    _cache = {}

    def __init__(self, path):
        self.path = path
        self.text = open(path).read()
        self.tree = ast.parse(self.text)
        self.sha = hashlib.sha256(self.text.encode()).hexdigest()[:16]
        self.funcs, self.classes, self.imports, self.globals = {}, {}, {}, {}
        for n in self.tree.body:
            if isinstance(n, ast.FunctionDef):
                self.funcs[n.name] = FuncSrc(path, n.name, n, None, self)
            elif isinstance(n, ast.ClassDef):
                self.classes[n.name] = ClassSrc(self, n)
            elif isinstance(n, ast.ImportFrom):
                for a in n.names:
                    self.imports[a.asname or a.name] = (('.' * n.level) + (n.module or ''), a.name)
            elif isinstance(n, ast.Import):
                for a in n.names:
                    self.imports[a.asname or a.name.split('.')[0]] = (a.name, None)
            elif isinstance(n, ast.Assign) and len(n.targets) == 1 and isinstance(n.targets[0], ast.Name):
                self.globals[n.targets[0].id] = n.value
            elif isinstance(n, ast.AnnAssign) and isinstance(n.target, ast.Name) and n.value is not None:
                self.globals[n.target.id] = n.value

    @classmethod
    def load(cls, relpath):
        path = relpath if os.path.isabs(relpath) else os.path.join(REPO, relpath)
        key = (path, os.path.getmtime(path))
        if key not in cls._cache:
            cls._cache[key] = Module(path)
        return cls._cache[key]

    def _module_file(self, modname):
        """file of a dotted panqec module name (absolute or relative), or None"""
        if modname.startswith('.'):
            level = len(modname) - len(modname.lstrip('.'))
            base = os.path.dirname(self.path)
            for _ in range(level - 1):
                base = os.path.dirname(base)
            rest = modname.lstrip('.')
            cand = os.path.join(base, *rest.split('.')) if rest else base
        elif modname.split('.')[0] == 'panqec':
            cand = os.path.join(REPO, *modname.split('.'))
        else:
            return None
        if os.path.isfile(cand + '.py'):
            return cand + '.py'
        if os.path.isdir(cand) and os.path.isfile(os.path.join(cand, '__init__.py')):
            return os.path.join(cand, '__init__.py')
        return None

    def resolve_import(self, name, depth=0):
        """-> ('func', FuncSrc) | ('class', ClassSrc) | ('module', Module) | None"""
        if name not in self.imports or depth > 6:
            return None
        mod, attr = self.imports[name]
        if (mod, attr) in _PKG_EXPORTS:
            m = Module.load(_PKG_EXPORTS[(mod, attr)])
            return ('class', m.classes[attr])
        f = self._module_file(mod)
        if f is None:
            return None
        if attr is None:
            return ('module', Module.load(f))
        m = Module.load(f)
        if attr in m.funcs:
            return ('func', m.funcs[attr])
        if attr in m.classes:
            return ('class', m.classes[attr])
        sub = self._module_file(mod + attr if mod.endswith('.') else mod + '.' + attr)
        if sub is not None:
            return ('module', Module.load(sub))
        if attr in m.imports:
            return m.resolve_import(attr, depth + 1)
        return None

    def resolve_class(self, name):
        if name in self.classes:
            return self.classes[name]
        r = self.resolve_import(name)
        if r and r[0] == 'class':
            return r[1]
        return None


def get_class(relpath, name):
    return Module.load(relpath).classes[name]


def get_func(relpath, qualname):
    m = Module.load(relpath)
    if '.' in qualname:
        c, f = qualname.split('.', 1)
        fs = m.classes[c].lookup(f)
        if fs is None:
            raise KeyError(qualname)
        return fs
    return m.funcs[qualname]
