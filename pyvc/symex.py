"""State-merging symbolic executor over the real source (DESIGN.md 2.2).

Python semantics assumed by the encoding: unbounded ints (z3 Int); floats as reals (A-real);
floor // and % ; dict insertion order and overwrite; no exceptions other than the modelled ones
(`raise`, assert, KeyError on a missing constant dict key, unbound local, division by zero as side
obligation).  Anything else raises Unsupported, which is never reported as a violation.
"""
import ast
import itertools
import numpy as np
import z3
from .source import Unsupported, FuncSrc, ClassSrc, Module
from .values import (T, E, M, D, Alt, NoneV, NONE, Undef, R, Arr, Obj, Closure, Opaque, Z, B, conc, ite, eq,
                     num2, is_num, is_real, py_floordiv, py_mod)

TRUE, FALSE = z3.BoolVal(True), z3.BoolVal(False)

# uninterpreted real functions (A-real): only the stated axioms are known to the solver
UF = {
    'log': z3.Function('log', z3.RealSort(), z3.RealSort()),
    'exp': z3.Function('exp', z3.RealSort(), z3.RealSort()),
    'sqrt': z3.Function('sqrt', z3.RealSort(), z3.RealSort()),
    'pow': z3.Function('pow', z3.RealSort(), z3.RealSort(), z3.RealSort()),
}
PYSTR = z3.Function('pystr', z3.IntSort(), z3.StringSort())
PYSTR_R = z3.Function('pystr_real', z3.RealSort(), z3.StringSort())
ZFILL = z3.Function('zfill', z3.StringSort(), z3.IntSort(), z3.StringSort())
ABSPATH = z3.Function('abspath', z3.StringSort(), z3.StringSort())
BASENAME = z3.Function('basename', z3.StringSort(), z3.StringSort())


class _Counter:
    """process-global counter for fresh names; reset() only at the start of a worker process, before any term is built (keeps names - and with them
    solver run times - independent of what the parent process did before forking)"""
    def __init__(self):
        self.n = 0

    def __next__(self):
        self.n += 1
        return self.n - 1

    def __iter__(self):
        return self

    def reset(self):
        self.n = 0


_FRESH = _Counter()


class S:
    """symbolic python str as a z3 String term (only where string identity matters: file names)"""
    def __init__(self, term):
        self.t = term


class Red:
    """reduction of an abstract array: kind in sum|prod|all|any|min|max"""
    def __init__(self, kind, arr, axis=None):
        self.kind, self.arr, self.axis = kind, arr, axis


_RED_TABLE = []


def red_const(red):
    """numeric / boolean stand-in for a reduction; the (constant, Red) pair is recorded so contracts can speak about the reduced array"""
    for c, r in _RED_TABLE:
        if r is red:
            return c
    k = len(_RED_TABLE)
    if red.kind in ('all', 'any'):
        arr = red.arr
        if isinstance(arr, Arr) and arr.rank == 1:
            j = z3.Int('red_j!%d' % k)
            inside = z3.And(j >= 0, j < Z(arr.shape[0]))
            c = z3.ForAll([j], z3.Implies(inside, B(arr.f(j)))) if red.kind == 'all' else z3.Exists([j], z3.And(inside, B(arr.f(j))))
        else:
            c = z3.Bool('red_%s!%d' % (red.kind, k))
    else:
        real = isinstance(red.arr, Arr) and red.arr.dtype == 'float'
        c = (z3.Real if real else z3.Int)('red_%s!%d' % (red.kind, k))
    _RED_TABLE.append((c, red))
    return c


class St:
    def __init__(self, live=TRUE):
        self.live = live
        self.ret = Undef()
        self.raises = []      # (cond, exception name, lineno)
        self.side = []        # (name, cond under which the side obligation applies, formula that must hold)
        self.effects = []     # free-form effect log (used by callers)

    def add_raise(self, cond, name, lineno=0):
        cond = z3.simplify(z3.And(self.live, cond))
        if not z3.is_false(cond):
            self.raises.append((cond, name, lineno))
        self.live = z3.simplify(z3.And(self.live, z3.Not(cond)))

    def raised(self):
        return z3.Or([c for c, _, _ in self.raises] + [FALSE])


def to_S(v):
    if isinstance(v, S):
        return v.t
    if isinstance(v, str):
        return z3.StringVal(v)
    if isinstance(v, E):
        r = z3.StringVal(v.alts[-1][1])
        for c, s in v.alts[-2::-1]:
            r = z3.If(c, z3.StringVal(s), r)
        return r
    if isinstance(v, (int, np.integer)) and not isinstance(v, bool):
        return z3.StringVal(str(int(v)))
    if isinstance(v, z3.ArithRef):
        return PYSTR(v) if v.is_int() else PYSTR_R(v)
    if isinstance(v, z3.SeqRef):
        return v
    if isinstance(v, Alt) and v.alts:
        r = to_S(v.alts[-1][1])
        for c, x_ in v.alts[-2::-1]:
            r = z3.If(c, to_S(x_), r)
        return r
    raise Unsupported('str of %s' % type(v).__name__)


def _mentions(e, v):
    seen, todo = set(), [e]
    while todo:
        t = todo.pop()
        if t.get_id() in seen:
            continue
        seen.add(t.get_id())
        if t.eq(v):
            return True
        todo += t.children()
    return False


class X:
    """one executor instance per analysed entry point"""
    MAX_DEPTH = 12

    def __init__(self, module, intr=None, max_unroll=64):
        self.module = module
        self.intr = intr or {}
        self.max_unroll = max_unroll
        self.depth = 0
        self.transparent = set()    # FuncSrc.ref of every function unfolded at a call site
        self.fresh_id = _FRESH      # process-global: names of generic-iteration variables never collide between executors
        self.native_literals = []
        self.loop_idx = []          # (fresh index var, bound) of every generic loop / element evaluation

    # ---------------------------------------------------------------- entry points
    def run(self, func, args=(), kwargs=None, self_obj=None, st=None):
        """symbolically execute FuncSrc `func`; returns (St, return value)"""
        st = st or St()
        sub = St(st.live)
        env = self._bind(func, list(args), dict(kwargs or {}), self_obj, sub)
        old, oldc = self.module, self._cur_class
        self.module = func.module
        if func.cls is not None:
            self._cur_class = func.cls
        self.depth += 1
        if self.depth > self.MAX_DEPTH:
            raise Unsupported('call depth')
        try:
            self.block(func.node.body, env, sub)
        finally:
            self.depth -= 1
            self.module = old
            self._cur_class = oldc
        st.raises += sub.raises; st.side += sub.side; st.effects += sub.effects
        st.live = z3.simplify(z3.And(st.live, z3.Not(z3.Or([c for c, _, _ in sub.raises] + [FALSE]))))
        ret = sub.ret
        rest = z3.simplify(sub.live)
        if isinstance(ret, Undef):
            ret = NONE
        elif not z3.is_false(rest):
            ret = ite(rest, NONE, ret)      # falling off the end returns None on the remaining paths
        return st, ret

    def _bind(self, func, args, kwargs, self_obj, st):
        a = func.node.args
        params = [p.arg for p in a.posonlyargs + a.args]
        env = {}
        is_static = any(isinstance(d, ast.Name) and d.id == 'staticmethod' for d in func.node.decorator_list)
        if func.cls is not None and not is_static:
            if self_obj is None:
                raise Unsupported('method %s without self' % func.qualname)
            env[params[0]] = self_obj
            params = params[1:]
        defaults = a.defaults
        dmap = {}
        for p, d in zip(params[len(params) - len(defaults):], defaults):
            dmap[p] = d
        for p, d in zip([k.arg for k in a.kwonlyargs], a.kw_defaults):
            if d is not None:
                dmap[p] = d
        allp = params + [k.arg for k in a.kwonlyargs]
        if len(args) > len(params):
            if a.vararg is None:
                raise Unsupported('too many positional args for %s' % func.qualname)
            env[a.vararg.arg] = T(args[len(params):])
            args = args[:len(params)]
        elif a.vararg is not None:
            env[a.vararg.arg] = T([])
        for p, v in zip(params, args):
            env[p] = v
        extra = {}
        for k, v in kwargs.items():
            if k in allp:
                env[k] = v
            else:
                extra[k] = v
        if a.kwarg is not None:
            env[a.kwarg.arg] = D(extra)
        elif extra:
            raise Unsupported('unexpected kwargs %s for %s' % (list(extra), func.qualname))
        for p in allp:
            if p not in env:
                if p in dmap:
                    env[p] = self.ev(dmap[p], {}, st)
                else:
                    raise Unsupported('missing argument %s of %s' % (p, func.qualname))
        return env

    def fresh_int(self, name):
        return z3.Int('%s!%d' % (name, next(self.fresh_id)))

    # ---------------------------------------------------------------- expressions
    def ev(self, e, env, st):
        m = getattr(self, 'ev_' + type(e).__name__, None)
        if m is None:
            raise Unsupported('expr %s (line %d)' % (type(e).__name__, getattr(e, 'lineno', 0)))
        return m(e, env, st)

    def ev_Constant(self, e, env, st):
        if isinstance(e.value, str):
            return E.const(e.value)
        if e.value is None:
            return NONE
        return e.value

    def ev_Name(self, e, env, st):
        if e.id in env:
            v = env[e.id]
            if isinstance(v, Undef):
                st.add_raise(TRUE, 'UnboundLocalError', e.lineno)
                raise Unsupported('definitely unbound %s' % e.id)
            if isinstance(v, Alt) and v.partial:
                defined = z3.Or([c for c, _ in v.alts] + [FALSE])
                st.add_raise(z3.Not(defined), 'UnboundLocalError', e.lineno)
                v = self._collapse(Alt(v.alts))
                env[e.id] = v
            return v
        if e.id in ('True', 'False'):
            return e.id == 'True'
        h = self.intr.get('name:' + e.id)
        if h is not None:
            return h(self, st)
        if e.id in self.module.globals:
            return self.ev(self.module.globals[e.id], {}, st)
        if e.id in self.module.funcs:
            return self.module.funcs[e.id]
        if e.id in self.module.classes:
            return self.module.classes[e.id]
        r = self.module.resolve_import(e.id)
        if r is not None:
            return r[1]
        if e.id in self.module.imports:
            return Opaque('import:%s' % '.'.join(x for x in self.module.imports[e.id] if x))
        if e.id in ('int', 'float', 'str', 'len', 'range', 'tuple', 'list', 'dict', 'abs', 'min', 'max', 'sum',
                    'bool', 'enumerate', 'zip', 'next', 'any', 'all', 'isinstance', 'sorted', 'set', 'map', 'print', 'divmod',
                    'ValueError', 'TypeError', 'NotImplementedError', 'KeyError'):
            return Opaque('builtin:' + e.id)
        raise Unsupported('name %s (line %d)' % (e.id, e.lineno))

    def _collapse(self, alt):
        """try to turn a total Alt of same-shaped values back into a merged value"""
        if not alt.alts:
            raise Unsupported('empty alternative')
        if len(alt.alts) == 1:
            return alt.alts[0][1]
        r = alt.alts[-1][1]
        for c, v in alt.alts[-2::-1]:
            r = ite(c, v, r)
        return r

    def ev_Tuple(self, e, env, st):
        return T(self._elts(e.elts, env, st))

    def ev_List(self, e, env, st):
        if not e.elts and 'new:list' in self.intr:
            return self.intr['new:list'](self, st)
        return T(self._elts(e.elts, env, st), 'list')

    def _elts(self, elts, env, st):
        out = []
        for x in elts:
            if isinstance(x, ast.Starred):
                v = self.ev(x.value, env, st)
                if not isinstance(v, T):
                    raise Unsupported('starred non-tuple')
                out += v.items
            else:
                out.append(self.ev(x, env, st))
        return out

    def ev_Dict(self, e, env, st):
        if not e.keys and 'new:dict' in self.intr:
            return self.intr['new:dict'](self, st)
        kv = {}
        for k, v in zip(e.keys, e.values):
            if k is None:
                inner = self.ev(v, env, st)
                if not isinstance(inner, D):
                    raise Unsupported('** of non-const dict')
                kv.update(inner.kv)
                continue
            kk = self._constkey(self.ev(k, env, st))
            kv[kk] = self.ev(v, env, st)
        return D(kv)

    def _constkey(self, k):
        c = conc(k)
        if c is not None:
            return c
        if isinstance(k, T):
            return tuple(self._constkey(x) for x in k.items)
        raise Unsupported('symbolic dict-literal key')

    def ev_UnaryOp(self, e, env, st):
        v = self.ev(e.operand, env, st)
        if isinstance(e.op, ast.USub):
            if isinstance(v, T):
                return T([self.bin(ast.Sub(), 0, x, st) for x in v.items], v.kind)
            if isinstance(v, Arr):
                return Arr(v.shape, lambda *i: self.bin(ast.Sub(), 0, v.f(*i), st), v.dtype)
            return -v if not isinstance(v, (bool, z3.BoolRef)) else -Z(v)
        if isinstance(e.op, ast.Not):
            return z3.Not(B(v))
        if isinstance(e.op, ast.Invert):
            if isinstance(v, Arr):
                return Arr(v.shape, lambda *i: z3.Not(B(v.f(*i))), 'bool')
            if isinstance(v, (bool, z3.BoolRef)):
                return z3.Not(B(v))
        if isinstance(e.op, ast.UAdd):
            return v
        raise Unsupported('unary op')

    def ev_BinOp(self, e, env, st):
        return self.bin(e.op, self.ev(e.left, env, st), self.ev(e.right, env, st), st, e)

    def ev_BoolOp(self, e, env, st):
        # short-circuit: later operands are evaluated under the guard of the earlier ones
        vals = []
        live0 = st.live
        acc = None
        for x in e.values:
            v = self.ev(x, env, st)
            vals.append(v)
            b = B(v)
            st.live = z3.And(st.live, b if isinstance(e.op, ast.And) else z3.Not(b))
        # exceptions raised while evaluating guarded operands were recorded under the narrowed live
        raised = z3.Or([c for c, _, _ in st.raises] + [FALSE])
        st.live = z3.simplify(z3.And(live0, z3.Not(raised))) if st.raises else live0
        bs = [B(v) for v in vals]
        allbool = all(isinstance(v, (bool, np.bool_, z3.BoolRef)) for v in vals)
        if allbool:
            return z3.And(bs) if isinstance(e.op, ast.And) else z3.Or(bs)
        # python returns one of the operands; only its truth value is kept unless operands are same-typed
        r = vals[-1]
        for v, b in zip(vals[-2::-1], bs[-2::-1]):
            try:
                r = ite(b, r, v) if isinstance(e.op, ast.And) else ite(b, v, r)
            except Unsupported:
                return z3.And(bs) if isinstance(e.op, ast.And) else z3.Or(bs)
        return r

    def ev_IfExp(self, e, env, st):
        c = z3.simplify(B(self.ev(e.test, env, st)))
        if z3.is_true(c):
            return self.ev(e.body, env, st)
        if z3.is_false(c):
            return self.ev(e.orelse, env, st)
        live0 = st.live
        st.live = z3.And(live0, c)
        a = self.ev(e.body, env, st)
        st.live = z3.And(live0, z3.Not(c))
        b = self.ev(e.orelse, env, st)
        st.live = z3.simplify(z3.And(live0, z3.Not(st.raised())))
        return ite(c, a, b)

    def ev_Compare(self, e, env, st):
        l = self.ev(e.left, env, st)
        out = []
        for op, r in zip(e.ops, e.comparators):
            rv = self.ev(r, env, st)
            out.append(self.cmp(op, l, rv, st))
            l = rv
        return out[0] if len(out) == 1 else z3.And([B(o) for o in out])

    def ev_JoinedStr(self, e, env, st):
        parts = []
        for v in e.values:
            if isinstance(v, ast.Constant):
                parts.append(z3.StringVal(v.value))
            elif isinstance(v, ast.FormattedValue):
                if v.format_spec is not None:
                    raise Unsupported('format spec in f-string')
                parts.append(to_S(self.ev(v.value, env, st)))
        if not parts:
            return S(z3.StringVal(''))
        return S(z3.Concat(*parts) if len(parts) > 1 else parts[0])

    def ev_Attribute(self, e, env, st):
        b = self.ev(e.value, env, st)
        return self.getattr_(b, e.attr, st, e)

    def getattr_(self, b, name, st, node=None):
        if isinstance(b, Alt):
            return self._collapse(Alt([(c, self.getattr_(v, name, st, node)) for c, v in b.alts]))
        if isinstance(b, Obj):
            h = self.intr.get(('attr', b.tag, name))
            if h is not None:
                return h(self, st, b)
            if name in b.fields:
                return b.fields[name]
            if ('method', b.tag, name) in self.intr:
                return ('hookmethod', b, name)          # a contract-level method of a tagged object, whatever name the object is reached through
            if b.cls is not None:
                if b.cls.has_attr(name):
                    return b.cls.lookup_attr(name)
                f = b.cls.lookup(name)
                if f is not None:
                    if b.cls.is_property(name):
                        _, r = self.call_func(f, [], {}, b, st)
                        return r
                    return ('bound', f, b)
            raise Unsupported('attribute %s.%s' % (b.tag, name))
        if isinstance(b, Opaque):
            if b.tag in ('import:numpy', 'import:np') and name in ('nan', 'inf'):
                return z3.Real('np_' + name)          # an unspecified real: only reachable on guarded paths
            return Opaque(b.tag + '.' + name)
        if isinstance(b, Module):
            if name in b.funcs:
                return b.funcs[name]
            if name in b.classes:
                return b.classes[name]
            r = b.resolve_import(name)
            if r:
                return r[1]
            raise Unsupported('module attribute %s' % name)
        if isinstance(b, Arr):
            if name == 'shape':
                return T(list(b.shape))
            if name == 'T':
                if b.rank <= 1:
                    return b
                return Arr(tuple(reversed(b.shape)), lambda *i: b.f(*reversed(i)), b.dtype, b.owner, b.sparse)     # numpy: .T reverses all axes
            if name == 'ndim':
                return b.rank
            if name == 'size':
                r = 1
                for s_ in b.shape:
                    r = r * s_
                return r
            return ('arrmethod', b, name)
        if hasattr(b, 'acc_attr'):
            return b.acc_attr(self, st, name)
        if isinstance(b, (T, E, S, M, D)):
            return ('valmethod', b, name)
        if isinstance(b, ClassSrc):
            f = b.lookup(name)
            if f is not None:
                return f
            if b.has_attr(name):
                return b.lookup_attr(name)
        if isinstance(b, Red) and name in ('sum', 'prod', 'all', 'any', 'min', 'max'):
            return ('arrmethod', b, name)               # reduction of a reduction (e.g. a.sum(axis=1).min())
        raise Unsupported('attribute %s of %s' % (name, type(b).__name__))

    def ev_Subscript(self, e, env, st):
        b = self.ev(e.value, env, st)
        if isinstance(b, Arr):
            return self.arr_index(b, e.slice, env, st)
        i = self.ev(e.slice, env, st) if not isinstance(e.slice, ast.Slice) else None
        if i is None:
            if isinstance(b, T):
                lo = conc(self.ev(e.slice.lower, env, st)) if e.slice.lower else None
                hi = conc(self.ev(e.slice.upper, env, st)) if e.slice.upper else None
                if (e.slice.lower and lo is None) or (e.slice.upper and hi is None) or e.slice.step:
                    raise Unsupported('symbolic tuple slice')
                return T(b.items[lo:hi], b.kind)
            raise Unsupported('slice of %s' % type(b).__name__)
        return self.index(b, i, st, e)

    def index(self, b, i, st, node=None):
        ln = getattr(node, 'lineno', 0)
        if isinstance(b, Alt):
            return self._collapse(Alt([(c, self.index(v, i, st, node)) for c, v in b.alts]))
        if isinstance(b, T):
            ci = conc(i)
            if isinstance(ci, (int, np.integer)) and not isinstance(ci, bool):
                if not -len(b.items) <= ci < len(b.items):
                    st.add_raise(TRUE, 'IndexError', ln)
                    raise Unsupported('index out of range')
                return b.items[int(ci)]
            if not b.items:
                raise Unsupported('index into empty list')
            iz = Z(i)
            st.add_raise(z3.Or(iz < -len(b.items), iz >= len(b.items)), 'IndexError', ln)
            r = b.items[-1]
            for k in range(len(b.items) - 2, -1, -1):
                r = ite(z3.Or(iz == k, iz == k - len(b.items)), b.items[k], r)
            return r
        if isinstance(b, D):
            if isinstance(i, E):
                r, found = None, []
                for c, v in i.alts:
                    if v in b.kv:
                        r = b.kv[v] if r is None else ite(c, b.kv[v], r)
                        found.append(c)
                st.add_raise(z3.Not(z3.Or(found + [FALSE])), 'KeyError', ln)
                if r is None:
                    raise Unsupported('dict key never present')
                return r
            ci = conc(i) if not isinstance(i, T) else None
            if isinstance(i, T):
                try:
                    ck = self._constkey(i)
                    if ck in b.kv:
                        return b.kv[ck]
                except Unsupported:
                    pass
                # symbolic tuple key against constant tuple keys
                r, found = None, []
                for k, v in b.kv.items():
                    if isinstance(k, tuple) and len(k) == len(i.items):
                        c = z3.And([eq(x, y) for x, y in zip(i.items, k)])
                        r = v if r is None else ite(c, v, r)
                        found.append(c)
                st.add_raise(z3.Not(z3.Or(found + [FALSE])), 'KeyError', ln)
                if r is None:
                    raise Unsupported('dict key never present')
                return r
            if ci is not None:
                if ci in b.kv:
                    return b.kv[ci]
                st.add_raise(TRUE, 'KeyError', ln)
                raise Unsupported('constant key %r missing' % (ci,))
            ks = [k for k in b.kv if isinstance(k, (int, np.integer))]
            if not ks:
                raise Unsupported('symbolic key on dict without int keys')
            st.add_raise(z3.Not(z3.Or([Z(i) == k for k in ks])), 'KeyError', ln)
            r = b.kv[ks[-1]]
            for k in ks[-2::-1]:
                r = ite(Z(i) == k, b.kv[k], r)
            return r
        if isinstance(b, M):
            if not isinstance(i, T):
                raise Unsupported('map key')
            return self.map_get(b, i, st, ln)
        if hasattr(b, 'acc_index'):
            return b.acc_index(self, st, i)
        h = self.intr.get(('index', getattr(b, 'tag', type(b).__name__)))
        if h is not None:
            return h(self, st, b, i)
        raise Unsupported('subscript of %s' % type(b).__name__)

    def map_get(self, m, key, st, ln=0):
        present = []
        r = None
        for g, k, v in m.entries:      # later entries override
            if v is None or not isinstance(k, T) or len(k.items) != len(key.items):
                continue
            c = z3.And(g, eq(k, key))
            r = v if r is None else ite(c, v, r)
            present.append(c)
        st.add_raise(z3.Not(self.map_has(m, key)), 'KeyError', ln)
        if r is None:
            raise Unsupported('lookup in empty map')
        return r

    @staticmethod
    def map_has(m, key):
        """membership, honouring pops (entries with value None)"""
        r = FALSE
        for g, k, v in m.entries:
            if not isinstance(k, T) or len(k.items) != len(key.items):
                continue
            c = z3.And(g, eq(k, key))
            r = z3.If(c, z3.BoolVal(v is not None), r)
        return z3.simplify(r)

    # ---------------------------------------------------------------- arrays
    def arr_index(self, a, sl, env, st):
        idx = list(sl.elts) if isinstance(sl, ast.Tuple) else [sl]
        if len(idx) > a.rank:
            raise Unsupported('too many indices')
        specs = []      # per axis: ('all',) | ('slice', lo, hi) | ('int', i) | ('mask', Arr) | ('fancy', Arr)
        for s_ in idx:
            if isinstance(s_, ast.Slice):
                if s_.step is not None:
                    raise Unsupported('slice step')
                lo = self.ev(s_.lower, env, st) if s_.lower else 0
                hi = self.ev(s_.upper, env, st) if s_.upper else None
                specs.append(('slice', lo, hi))
            else:
                v = self.ev(s_, env, st)
                if isinstance(v, Arr):
                    specs.append(('mask' if v.dtype == 'bool' else 'fancy', v))
                elif isinstance(v, T):
                    raise Unsupported('list index')
                else:
                    specs.append(('int', v))
        while len(specs) < a.rank:
            specs.append(('slice', 0, None))
        if any(s_[0] in ('mask', 'fancy') for s_ in specs):
            h = self.intr.get('arr:advanced_index')
            if h is None:
                raise Unsupported('advanced indexing')
            return h(self, st, a, specs)
        if all(s_[0] == 'int' for s_ in specs):
            return a.f(*[s_[1] for s_ in specs])
        shape, maps = [], []
        for ax, s_ in enumerate(specs):
            if s_[0] == 'int':
                maps.append(('c', s_[1]))
            else:
                lo, hi = s_[1], s_[2]
                hi = a.shape[ax] if hi is None else hi
                clo = conc(lo)
                if isinstance(clo, (int, np.integer)) and clo < 0:
                    raise Unsupported('negative slice bound')
                shape.append(self.bin(ast.Sub(), hi, lo, st))
                maps.append(('o', lo))

        def f(*i, maps=maps, a=a):
            it = iter(i); full = []
            for kind, v in maps:
                full.append(v if kind == 'c' else self.bin(ast.Add(), next(it), v, st))
            return a.f(*full)
        return Arr(shape, f, a.dtype, a.owner, a.sparse)     # basic slicing: a view, same owner

    def lift(self, fn, *vals, dtype=None):
        """apply fn pointwise over arrays / scalars (numpy broadcasting of scalars only)"""
        arrs = [v for v in vals if isinstance(v, Arr)]
        if not arrs:
            return fn(*vals)
        rank = max(a.rank for a in arrs)
        shp = next(a.shape for a in arrs if a.rank == rank)

        def f(*i):
            xs = []
            for v in vals:
                if isinstance(v, Arr):
                    xs.append(v.f(*i[len(i) - v.rank:]))
                else:
                    xs.append(v)
            return fn(*xs)
        return Arr(shp, f, dtype or arrs[0].dtype, 'fresh')

    def eager(self, shape, f, st):
        """evaluate an element function once at fresh indices under the current state so that raise / division side
        conditions of the element computation are recorded (the indices are kept in self.loop_idx with their bounds)"""
        idx = [self.fresh_int('e') for _ in shape]
        live0 = st.live
        st.live = z3.And([live0] + [z3.And(k >= 0, k < Z(n)) for k, n in zip(idx, shape)])
        self.loop_idx += [(k, Z(n)) for k, n in zip(idx, shape)]
        old = self._lazy
        try:
            self._lazy = st
            f(*idx)
        finally:
            self._lazy = old
            st.live = live0

    _lazy = None
    loop_idx = []

    def lazy_st(self):
        """state used by element closures: the real state during eager evaluation, a throw-away one afterwards"""
        return self._lazy if self._lazy is not None else St()

    # ---------------------------------------------------------------- operators
    def bin(self, op, a, b, st, node=None):
        ln = getattr(node, 'lineno', 0)
        if isinstance(a, Red):
            a = red_const(a)
        if isinstance(b, Red):
            b = red_const(b)
        if isinstance(a, Arr) or isinstance(b, Arr):
            if isinstance(a, Arr) and isinstance(b, Arr) and a.dtype == 'bool' and b.dtype == 'bool' \
                    and isinstance(op, (ast.Add, ast.Mult, ast.BitOr, ast.BitAnd)):
                # numpy: bool + bool is logical or, bool * bool is logical and
                k = (lambda x, y: z3.Or(B(x), B(y))) if isinstance(op, (ast.Add, ast.BitOr)) else (lambda x, y: z3.And(B(x), B(y)))
                return self.lift(k, a, b, dtype='bool')
            r = self.lift(lambda x, y: self.bin(op, x, y, self.lazy_st(), node), a, b)
            if isinstance(a, Arr) and isinstance(b, Arr) and a.dtype == 'uint8' and b.dtype == 'uint8' and isinstance(op, (ast.Add, ast.Mult, ast.Sub)):
                # A-numpy: arithmetic on two uint8 arrays wraps modulo 256
                f0 = r.f
                r = Arr(r.shape, lambda *i: Z(f0(*i)) % 256, 'uint8', 'fresh', a.sparse and b.sparse)
            elif isinstance(a, Arr) and isinstance(b, Arr):
                r.dtype = a.dtype if a.dtype == b.dtype else ('int64' if 'int64' in (a.dtype, b.dtype) else a.dtype)
                r.sparse = a.sparse and b.sparse
            elif isinstance(a, Arr):
                r.sparse = a.sparse if isinstance(op, (ast.Mod, ast.Mult)) else False
            if isinstance(op, (ast.Div, ast.Mod, ast.FloorDiv)):
                self.eager(r.shape, r.f, st)
            return r
        if isinstance(a, Alt):
            return self._collapse(Alt([(c, self.bin(op, v, b, st, node)) for c, v in a.alts]))
        if isinstance(b, Alt):
            return self._collapse(Alt([(c, self.bin(op, a, v, st, node)) for c, v in b.alts]))
        if isinstance(a, T) or isinstance(b, T):
            if isinstance(op, ast.Add) and isinstance(a, T) and isinstance(b, T) and a.kind != 'vec' and b.kind != 'vec':
                return T(a.items + b.items, a.kind)
            if isinstance(op, ast.Mult) and isinstance(a, T) and a.kind == 'list' and isinstance(conc(b), int):
                return T(a.items * conc(b), 'list')
            if isinstance(a, T) and isinstance(b, T) and len(a.items) != len(b.items):
                raise Unsupported('vector length mismatch')
            if not isinstance(a, T):
                a = T([a] * len(b.items), 'vec')
            if not isinstance(b, T):
                b = T([b] * len(a.items), 'vec')
            return T([self.bin(op, x, y, st, node) for x, y in zip(a.items, b.items)], 'vec')
        if isinstance(a, (S, E, str)) or isinstance(b, (S, E, str)):
            if isinstance(op, ast.Add):
                if isinstance(a, E) and isinstance(b, E):
                    return E([(z3.And(c1, c2), x + y) for c1, x in a.alts for c2, y in b.alts])
                return S(z3.Concat(to_S(a), to_S(b)))
            if isinstance(op, ast.Mod) and isinstance(a, E) and a.is_const():
                raise Unsupported('%-formatting')
            raise Unsupported('string operator')
        if isinstance(a, (bool, np.bool_, z3.BoolRef)) and isinstance(b, (bool, np.bool_, z3.BoolRef)):
            if isinstance(op, ast.BitAnd):
                return z3.And(B(a), B(b))
            if isinstance(op, ast.BitOr):
                return z3.Or(B(a), B(b))
            if isinstance(op, ast.BitXor):
                return z3.Xor(B(a), B(b))
            if isinstance(op, ast.Add) and node is not None and getattr(node, '_np_bool_add', False):
                return z3.Or(B(a), B(b))
        if isinstance(a, (bool, np.bool_, z3.BoolRef)):
            a = Z(a)
        if isinstance(b, (bool, np.bool_, z3.BoolRef)):
            b = Z(b)
        if not (is_num(a) and is_num(b)):
            raise Unsupported('operator %s on %s,%s' % (type(op).__name__, type(a).__name__, type(b).__name__))
        ca, cb = conc(a), conc(b)
        both_c = ca is not None and cb is not None and not isinstance(a, z3.ExprRef) and not isinstance(b, z3.ExprRef)
        if isinstance(op, ast.Add):
            return a + b if both_c else num2(a, b, lambda x, y: x + y)
        if isinstance(op, ast.Sub):
            return a - b if both_c else num2(a, b, lambda x, y: x - y)
        if isinstance(op, ast.Mult):
            return a * b if both_c else num2(a, b, lambda x, y: x * y)
        if isinstance(op, ast.Pow):
            if both_c:
                return a ** b
            if isinstance(cb, (int, np.integer)) and 0 <= cb <= 4:
                r = Z(1) if not is_real(a) else z3.RealVal(1)
                for _ in range(int(cb)):
                    r = num2(r, a, lambda x, y: x * y)
                return r
            za, zb = Z(a), Z(b)
            return UF['pow'](z3.ToReal(za) if not za.is_real() else za, z3.ToReal(zb) if not zb.is_real() else zb)
        if isinstance(op, (ast.Mod, ast.FloorDiv, ast.Div)):
            if both_c:
                if cb == 0:
                    st.add_raise(TRUE, 'ZeroDivisionError', ln)
                    raise Unsupported('constant division by zero')
                return a % b if isinstance(op, ast.Mod) else a // b if isinstance(op, ast.FloorDiv) else a / b
            zb = Z(b)
            nz = z3.simplify(zb != 0)
            if not z3.is_true(nz):
                st.side.append(('nodiv0@%d' % ln, st.live, nz))
            if isinstance(op, ast.Div):
                za = Z(a)
                return (z3.ToReal(za) if not za.is_real() else za) / (z3.ToReal(zb) if not zb.is_real() else zb)
            if self.pos_div and not Z(a).is_real() and not zb.is_real():
                # lattice arithmetic: divisors are positive under the class precondition (recorded as a side obligation)
                pos = z3.simplify(zb > 0)
                if not z3.is_true(pos):
                    st.side.append(('posdiv@%d' % ln, st.live, pos))
                return (Z(a) % zb) if isinstance(op, ast.Mod) else (Z(a) / zb)
            return py_mod(a, b) if isinstance(op, ast.Mod) else py_floordiv(a, b)
        raise Unsupported('operator %s' % type(op).__name__)

    def cmp(self, op, a, b, st):
        if isinstance(a, Red):
            a = red_const(a)
        if isinstance(b, Red):
            b = red_const(b)
        if isinstance(a, Arr) or isinstance(b, Arr):
            return self.lift(lambda x, y: self.cmp(op, x, y, self.lazy_st()), a, b, dtype='bool')
        if isinstance(op, (ast.In, ast.NotIn)):
            r = self.contains(b, a, st)
            return r if isinstance(op, ast.In) else z3.Not(r)
        if isinstance(op, (ast.Is, ast.IsNot)):
            if isinstance(b, NoneV) or isinstance(a, NoneV):
                r = self.is_none(a) if isinstance(b, NoneV) else self.is_none(b)
                return r if isinstance(op, ast.Is) else z3.Not(r)
            raise Unsupported('is')
        if isinstance(op, (ast.Eq, ast.NotEq)):
            if isinstance(a, S) or isinstance(b, S):
                r = to_S(a) == to_S(b)
            else:
                r = eq(a, b)
            return r if isinstance(op, ast.Eq) else z3.Not(r)
        if isinstance(a, Alt):
            return z3.Or([z3.And(c, B(self.cmp(op, v, b, st))) for c, v in a.alts] + [FALSE])
        if isinstance(a, (bool, z3.BoolRef)):
            a = Z(a)
        if isinstance(b, (bool, z3.BoolRef)):
            b = Z(b)
        if not (is_num(a) and is_num(b)):
            raise Unsupported('comparison of %s,%s' % (type(a).__name__, type(b).__name__))
        fn = {ast.Lt: lambda x, y: x < y, ast.LtE: lambda x, y: x <= y,
              ast.Gt: lambda x, y: x > y, ast.GtE: lambda x, y: x >= y}[type(op)]
        return num2(a, b, fn)

    def is_none(self, v):
        if isinstance(v, NoneV):
            return TRUE
        if isinstance(v, Alt):
            return z3.Or([c for c, x in v.alts if isinstance(x, NoneV)] + [FALSE])
        return FALSE

    def contains(self, container, item, st):
        if isinstance(container, Alt):
            return z3.Or([z3.And(c, self.contains(v, item, st)) for c, v in container.alts] + [FALSE])
        if isinstance(container, T):
            return z3.Or([B(eq(item, x)) for x in container.items] + [FALSE])
        if isinstance(container, E) and isinstance(item, (E, str)):
            item = E.const(item) if isinstance(item, str) else item
            return z3.Or([z3.And(c1, c2) for c1, x in item.alts for c2, y in container.alts if x in y] + [FALSE])
        if isinstance(container, D):
            if isinstance(item, E):
                return z3.Or([c for c, v in item.alts if v in container.kv] + [FALSE])
            ci = conc(item)
            if ci is not None:
                return z3.BoolVal(ci in container.kv)
            if isinstance(item, T):
                return z3.Or([z3.And([eq(x, y) for x, y in zip(item.items, k)]) for k in container.kv
                              if isinstance(k, tuple) and len(k) == len(item.items)] + [FALSE])
            return z3.Or([Z(item) == k for k in container.kv if isinstance(k, (int, np.integer))] + [FALSE])
        if isinstance(container, M):
            if not isinstance(item, T):
                raise Unsupported('map membership key')
            return self.map_has(container, item)
        if hasattr(container, 'acc_contains'):
            return container.acc_contains(self, st, item)
        h = self.intr.get(('contains', getattr(container, 'tag', type(container).__name__)))
        if h is not None:
            return h(self, st, container, item)
        if isinstance(container, tuple) and container and container[0] in ('valmethod', 'accmethod'):
            # `x in d.keys()`
            return self.contains(container[1], item, st)
        raise Unsupported('in %s' % type(container).__name__)

    # ---------------------------------------------------------------- calls
    # --- aliasing of value containers -------------------------------------------------------------------------------------------------------
    # D / M / T / Arr are immutable values in this executor; a store builds a new value and rebinds the name it was reached through.  Python containers are
    # shared objects: every other reference to the same object (a local alias of a field, the caller's variable passed as an argument, a field holding it)
    # must see the store as well.  Every functional update is therefore logged as (old object, new object) and replayed, by identity, on the environment of
    # the current frame and - when a call returns - on the environment of the caller.
    def _rebind_in(self, holder, old, new, depth=0):
        if isinstance(holder, Obj):
            for k_, v_ in list(holder.fields.items()):
                if v_ is old:
                    holder.fields[k_] = new
                elif depth < 2 and isinstance(v_, Obj):
                    self._rebind_in(v_, old, new, depth + 1)

    def _apply_rebinds(self, env, pairs):
        for old, new in pairs:
            for k_, v_ in list(env.items()):
                if v_ is old:
                    env[k_] = new
                elif isinstance(v_, Obj):
                    self._rebind_in(v_, old, new)

    def _log_rebind(self, old, new, env):
        if old is not None and old is not new and isinstance(old, (D, M, T, Arr)):
            if not hasattr(self, '_rebinds'):
                self._rebinds = []
            self._rebinds.append((old, new))
            self._apply_rebinds(env, [(old, new)])

    def ev_Call(self, e, env, st):
        n0 = len(getattr(self, '_rebinds', []))
        r = self._ev_Call(e, env, st)
        pend = getattr(self, '_rebinds', [])[n0:]
        if pend:
            self._apply_rebinds(env, pend)       # stores made by the callee through its parameters / through self are visible to the caller's names
        return r

    def _ev_Call(self, e, env, st):
        f = e.func
        # intrinsic by dotted source name first (np.xxx, os.path.xxx, self.xxx on tagged objects)
        dotted = None
        try:
            dotted = ast.unparse(f)
        except Exception:
            pass
        kwargs = {}
        args = None

        def get_args():
            a = self._elts(e.args, env, st)
            kw = {}
            for k in e.keywords:
                if k.arg is None:
                    v = self.ev(k.value, env, st)
                    if not isinstance(v, D):
                        raise Unsupported('**kwargs of non-const dict')
                    kw.update(v.kv)
                else:
                    kw[k.arg] = self.ev(k.value, env, st)
            return a, kw
        if dotted in self.intr:
            args, kwargs = get_args()
            return self.intr[dotted](self, st, args, kwargs)
        if isinstance(f, ast.Attribute) and isinstance(f.value, ast.Call) and isinstance(f.value.func, ast.Name) \
                and f.value.func.id == 'super':
            cls = None
            selfv = env.get('self')
            # super().m(...) -> next class in the MRO after the one defining the current function
            cur = self._cur_class
            mro = selfv.cls.mro() if isinstance(selfv, Obj) and selfv.cls else []
            if cur in mro:
                for c in mro[mro.index(cur) + 1:]:
                    if f.attr in c.methods:
                        args, kwargs = get_args()
                        return self.call_func(c.methods[f.attr], args, kwargs, selfv, st)[1]
            raise Unsupported('super().%s' % f.attr)
        fv = self.ev(f, env, st)
        args, kwargs = get_args()
        return self.apply(fv, args, kwargs, st, e)

    _cur_class = None
    comp_idx = []
    pos_div = False

    def apply(self, fv, args, kwargs, st, node=None):
        if isinstance(fv, tuple) and fv and fv[0] == 'hookmethod':
            return self.intr[('method', fv[1].tag, fv[2])](self, st, fv[1], args, kwargs)
        if isinstance(fv, tuple) and fv and fv[0] == 'bound':
            _, func, obj = fv
            h = self.intr.get(('method', obj.tag, func.node.name))
            if h is not None:
                return h(self, st, obj, args, kwargs)
            return self.call_func(func, args, kwargs, obj, st)[1]
        if isinstance(fv, FuncSrc):
            h = self.intr.get(('func', fv.qualname))
            if h is not None:
                return h(self, st, args, kwargs)
            return self.call_func(fv, args, kwargs, None, st)[1]
        if isinstance(fv, Closure):
            return fv.x.call_closure(fv, args, kwargs, st)
        if isinstance(fv, Opaque):
            return self.builtin(fv.tag, args, kwargs, st, node)
        if isinstance(fv, tuple) and fv and fv[0] == 'valmethod':
            return self.valmethod(fv[1], fv[2], args, kwargs, st, node)
        if isinstance(fv, tuple) and fv and fv[0] == 'accmethod':
            if hasattr(fv[1], 'acc_call') and fv[2] not in ('keys', 'items', 'values'):
                return fv[1].acc_call(self, st, fv[2], args, kwargs)
            return fv
        if isinstance(fv, tuple) and fv and fv[0] == 'arrmethod':
            return self.arrmethod(fv[1], fv[2], args, kwargs, st, node)
        if isinstance(fv, ClassSrc):
            h = self.intr.get(('new', fv.name))
            if h is not None:
                return h(self, st, args, kwargs)
            raise Unsupported('constructor %s' % fv.name)
        raise Unsupported('call of %s' % type(fv).__name__)

    def call_func(self, func, args, kwargs, self_obj, st):
        self.transparent.add(func.ref)
        old = self._cur_class
        self._cur_class = func.cls
        try:
            return self.run(func, args, kwargs, self_obj, st)
        finally:
            self._cur_class = old

    def call_closure(self, clo, args, kwargs, st):
        node = clo.node
        if isinstance(node, ast.Lambda):
            params = [a.arg for a in node.args.args]
            env = dict(clo.env)
            env.update(zip(params, args))
            return self.ev(node.body, env, st)
        raise Unsupported('closure')

    def ev_Lambda(self, e, env, st):
        return Closure(e, env, self)

    # builtin functions and numpy --------------------------------------------------
    def builtin(self, tag, args, kwargs, st, node=None):
        ln = getattr(node, 'lineno', 0)
        name = tag.split(':', 1)[1] if ':' in tag else tag
        h = self.intr.get(name)
        if h is not None:
            return h(self, st, args, kwargs)
        if name == 'range':
            a, b, s_ = (0, args[0], 1) if len(args) == 1 else (args[0], args[1], 1) if len(args) == 2 else args
            return R(a, b, s_)
        if name in ('tuple', 'list'):
            if not args:
                return T([], name)
            v = args[0]
            if isinstance(v, T):
                return T(v.items, name)
            if isinstance(v, (Arr, E, S)):
                return v
            if isinstance(v, tuple) and v and v[0] == 'valmethod' and v[2] in ('keys',):
                return v[1]
            if isinstance(v, tuple) and v and v[0] == 'accmethod' and v[2] in ('keys',):
                return v[1]
            if hasattr(v, 'acc_loop'):
                return v
            if isinstance(v, R):
                return self._range_items(v)
            raise Unsupported('%s(%s)' % (name, type(v).__name__))
        if name == 'dict':
            if args:
                if isinstance(args[0], D):
                    return D(args[0].kv)
                raise Unsupported('dict(x)')
            if 'new:dict' in self.intr:
                return self.intr['new:dict'](self, st)
            return M()
        if name == 'len':
            v = args[0]
            if isinstance(v, T):
                return len(v.items)
            if isinstance(v, Arr):
                return v.shape[0]
            if isinstance(v, Alt):
                return self._collapse(Alt([(c, self.builtin(tag, [x], kwargs, st, node)) for c, x in v.alts]))
            if isinstance(v, D):
                return len(v.kv)
            if isinstance(v, S):
                return z3.Length(v.t)
            h = self.intr.get(('len', getattr(v, 'tag', type(v).__name__)))
            if h is not None:
                return h(self, st, v)
            raise Unsupported('len(%s)' % type(v).__name__)
        if name == 'int':
            v = args[0]
            if isinstance(v, (bool, z3.BoolRef)):
                return Z(v)
            if isinstance(v, S):
                raise Unsupported('int(str)')
            if isinstance(v, E) and v.is_const():
                try:
                    return int(v.alts[0][1])
                except ValueError:
                    st.add_raise(TRUE, 'ValueError', ln)
                    raise Unsupported('int() of a non-numeric literal')
            c = conc(v)
            if c is not None and not isinstance(v, z3.ExprRef):
                return int(c)
            zv = Z(v)
            if zv.is_int():
                return zv
            return z3.If(zv >= 0, z3.ToInt(zv), -z3.ToInt(-zv))     # truncation toward zero
        if name == 'float':
            v = args[0]
            zv = Z(v) if not isinstance(v, (E, S)) else None
            if zv is None:
                raise Unsupported('float(str)')
            return z3.ToReal(zv) if zv.is_int() else zv
        if name == 'bool':
            return B(red_const(args[0])) if isinstance(args[0], Red) else B(args[0])
        if name == 'str':
            return S(to_S(args[0]))
        if name == 'divmod':
            return T([self.bin(ast.FloorDiv(), args[0], args[1], st, node), self.bin(ast.Mod(), args[0], args[1], st, node)])
        if name == 'abs':
            zv = Z(args[0])
            return z3.If(zv >= 0, zv, -zv)
        if name in ('min', 'max'):
            items = args[0].items if len(args) == 1 and isinstance(args[0], T) else args
            if len(args) == 1 and isinstance(args[0], Arr):
                return Red(name, args[0])
            if any(isinstance(i_, Red) for i_ in items):
                return Red(name, T(list(items)))
            r = items[0]
            for x in items[1:]:
                c = num2(x, r, (lambda p, q: p < q) if name == 'min' else (lambda p, q: p > q))
                r = ite(c, x, r)
            return r
        if name == 'sum':
            v = args[0]
            if isinstance(v, T):
                r = 0
                for x in v.items:
                    r = self.bin(ast.Add(), r, x, st)
                return r
            if isinstance(v, Arr):
                return Red('sum', v)
            raise Unsupported('sum')
        if name in ('any', 'all'):
            v = args[0]
            if isinstance(v, T):
                bs = [B(x) for x in v.items]
                return (z3.Or(bs + [FALSE]) if name == 'any' else z3.And(bs + [TRUE]))
            if isinstance(v, Arr):
                return Red(name, v)
            raise Unsupported(name)
        if name == 'next' and 1 <= len(args) <= 2 and isinstance(args[0], T):
            # next(<generator over a finite list with an optional symbolic filter>, default): the first element whose guard holds
            items = args[0].items; gs = getattr(args[0], 'guards', None) or [TRUE] * len(items)
            alts, none_before = [], TRUE
            for g_, it_ in zip(gs, items):
                alts.append((z3.simplify(z3.And(none_before, g_)), it_))
                none_before = z3.simplify(z3.And(none_before, z3.Not(g_)))
            if len(args) == 2:
                alts.append((none_before, args[1]))
            else:
                st.add_raise(none_before, 'StopIteration', getattr(node, 'lineno', 0))
            alts = [(c_, v_) for c_, v_ in alts if not z3.is_false(c_)]
            return alts[0][1] if len(alts) == 1 and z3.is_true(alts[0][0]) else Alt(alts)
        if name == 'enumerate':
            v = args[0]
            if isinstance(v, T):
                return T([T([i, x]) for i, x in enumerate(v.items)], 'list')
            if isinstance(v, Obj) and ('len', v.tag) in self.intr and ('index', v.tag) in self.intr:
                # a tagged sequence given by its length and element contracts
                v = Arr((self.intr[('len', v.tag)](self, st, v),), (lambda i, v=v: self.intr[('index', v.tag)](self, st, v, i)), 'obj', 'seq:' + v.tag)
            if isinstance(v, Arr):
                return ('enumerate', v)
            raise Unsupported('enumerate')
        if name == 'zip':
            if all(isinstance(a, T) for a in args):
                return T([T(list(xs)) for xs in zip(*[a.items for a in args])], 'list')
            if args and all(isinstance(a, Arr) and a.rank >= 1 for a in args):
                return ('zip', list(args))
            raise Unsupported('zip')
        if name == 'isinstance':
            v, t = args
            tn = t.tag.split(':')[-1] if isinstance(t, Opaque) else None
            if tn is None and isinstance(t, T):
                return z3.Or([B(self.builtin(tag, [v, x], kwargs, st, node)) for x in t.items])
            kinds = {'list': lambda x: (isinstance(x, T) and x.kind == 'list') or (isinstance(x, Arr) and getattr(x, 'pylist', False)), 'tuple': lambda x: isinstance(x, T) and x.kind == 'tuple',
                     'dict': lambda x: isinstance(x, (D, M)), 'str': lambda x: isinstance(x, (E, S, str)),
                     'int': lambda x: isinstance(x, (int, np.integer)) or (isinstance(x, z3.ArithRef) and x.is_int()),
                     'float': lambda x: isinstance(x, float) or (isinstance(x, z3.ArithRef) and x.is_real())}
            tn2 = tn.split('.')[-1] if tn else None
            if tn2 in ('ndarray',):
                return z3.BoolVal(isinstance(v, Arr) and not v.sparse)
            if tn2 in ('csr_matrix',):
                return z3.BoolVal(isinstance(v, Arr) and v.sparse)
            if tn2 in kinds:
                return z3.BoolVal(bool(kinds[tn2](v)))
            raise Unsupported('isinstance(%s)' % tn)
        if name in ('ValueError', 'TypeError', 'NotImplementedError', 'KeyError'):
            return Opaque('exc:' + name)
        if name == 'print':
            return NONE
        if name.startswith('np.') or name.startswith('numpy.'):
            return self.numpy(name.split('.', 1)[1], args, kwargs, st, node)
        if name.startswith('itertools.'):
            if name == 'itertools.product':
                rep = conc(kwargs.get('repeat', 1))
                if all(isinstance(a, T) for a in args) and isinstance(rep, int):
                    lists = [a.items for a in args] * rep
                    return T([T(list(c)) for c in itertools.product(*lists)], 'list')
                if kwargs:
                    raise Unsupported('itertools.product(repeat=) over symbolic factors')
                return ('product', args)
        if name in ('os.path.join',):
            parts = [to_S(a) for a in args]
            r = parts[0]
            for p in parts[1:]:
                r = z3.Concat(r, z3.StringVal('/'), p)
            return S(r)
        if name == 'os.path.abspath':
            return S(ABSPATH(to_S(args[0])))
        if name == 'os.path.basename':
            return S(BASENAME(to_S(args[0])))
        if name in ('math.sqrt', 'math.log', 'math.exp'):
            zv = Z(args[0])
            return UF[name.split('.')[1]](z3.ToReal(zv) if zv.is_int() else zv)
        raise Unsupported('call %s (line %d)' % (name, ln))

    def _range_items(self, r):
        a, b, s_ = conc(r.a), conc(r.b), conc(r.st)
        if None in (a, b, s_) or isinstance(r.a, z3.ExprRef) or isinstance(r.b, z3.ExprRef):
            raise Unsupported('symbolic range')
        items = list(range(int(a), int(b), int(s_)))
        if len(items) > self.max_unroll:
            raise Unsupported('range too long to unroll')
        return T(items, 'list')

    def numpy(self, fn, args, kwargs, st, node=None):
        if any(k_ in kwargs for k_ in ('out', 'where', 'casting', 'order')):
            raise Unsupported('np.%s with out= / where= (in-place ufunc semantics are outside the subset)' % fn)
        un = {'logical_not': lambda x: z3.Not(B(x))}
        bi = {'add': ast.Add(), 'subtract': ast.Sub(), 'multiply': ast.Mult(), 'mod': ast.Mod()}
        if fn in bi:
            a, b = args[:2]
            if isinstance(a, T):
                a = T(a.items, 'vec')
            if isinstance(b, T):
                b = T(b.items, 'vec')
            return self.bin(bi[fn], a, b, st, node)
        if fn == 'array' or fn == 'asarray':
            v = args[0]
            if isinstance(v, T) and v.items and all(isinstance(p, Arr) for p in v.items):
                # stack of equally shaped arrays along a new leading axis (numpy raises / builds an object array otherwise: side condition recorded)
                parts = v.items
                if len({p.rank for p in parts}) != 1:
                    raise Unsupported('np.array of arrays of different rank')
                for p in parts[1:]:
                    for d0, d1 in zip(parts[0].shape, p.shape):
                        st.add_raise(z3.And(st.live, z3.Not(num2(d0, d1, lambda x, y: x == y))), 'ValueError', getattr(node, 'lineno', 0))

                def fstack(i, *j, parts=parts):
                    r = parts[-1].f(*j)
                    for k in range(len(parts) - 2, -1, -1):
                        r = ite(num2(i, k, lambda x, y: x == y), parts[k].f(*j), r)
                    return r
                return Arr((len(parts),) + parts[0].shape, fstack, parts[0].dtype, 'fresh')
            if isinstance(v, T):
                return T(v.items, 'vec')
            if isinstance(v, Arr) and v.rank == 1:
                probe = self.fresh_int('stk')
                try:
                    inner = v.f(probe)
                except Unsupported:
                    inner = None
                if isinstance(inner, Arr):
                    for d0 in inner.shape:
                        if isinstance(d0, z3.ExprRef) and _mentions(d0, probe):
                            raise Unsupported('np.array of a ragged comprehension')
                    return Arr((v.shape[0],) + inner.shape, lambda i, *j: v.f(i).f(*j), inner.dtype, 'fresh')
            if isinstance(v, Arr):
                dt = kwargs.get('dtype')
                dts = conc(dt) if dt is not None and not isinstance(dt, Opaque) else None
                if dts == 'uint8' and v.dtype != 'uint8':
                    return Arr(v.shape, lambda *i: Z(v.f(*i)) % 256, 'uint8', 'fresh', False)
                return Arr(v.shape, v.f, v.dtype, 'fresh', False)
            return v
        if fn == 'reshape':
            return self.reshape(args[0], args[1])
        if fn in ('logical_and', 'logical_or'):
            k = (lambda x, y: z3.And(B(x), B(y))) if fn == 'logical_and' else (lambda x, y: z3.Or(B(x), B(y)))
            return self.lift(k, args[0], args[1], dtype='bool')
        if fn in un:
            return self.lift(un[fn], args[0], dtype='bool')
        if fn in ('log', 'exp', 'sqrt'):
            def k(x, fn=fn):
                zx = Z(x)
                return UF[fn](z3.ToReal(zx) if zx.is_int() else zx)
            return self.lift(k, args[0], dtype='float')
        if fn in ('zeros', 'ones'):
            shp = args[0]
            shape = tuple(shp.items) if isinstance(shp, T) else (shp,)
            val = 0 if fn == 'zeros' else 1
            dt = kwargs.get('dtype')
            return Arr(shape, lambda *i: val, 'int' if dt is not None else 'float', 'fresh')
        if fn == 'zeros_like':
            v = args[0]
            return Arr(v.shape, lambda *i: 0, v.dtype, 'fresh')
        if fn == 'clip' and len(args) == 3:
            lo, hi = args[1], args[2]

            def k(x, lo=lo, hi=hi):
                r = x
                if not isinstance(lo, NoneV):
                    r = ite(num2(r, lo, lambda a_, b_: a_ < b_), lo, r)
                if not isinstance(hi, NoneV):
                    r = ite(num2(r, hi, lambda a_, b_: a_ > b_), hi, r)
                return r
            if isinstance(args[0], Arr):
                return self.lift(k, args[0], dtype=args[0].dtype)
            return k(args[0])
        if fn in ('floor', 'ceil'):
            v = args[0]
            if isinstance(v, Arr):
                raise Unsupported('np.%s of an array' % fn)
            zv = Z(v)
            if zv.is_int():
                return zv
            # numpy returns a float with an integral value; kept as the integer so that int(...) is exact (A-real)
            return z3.ToInt(zv) if fn == 'floor' else -z3.ToInt(-zv)
        if fn == 'count_nonzero':
            v = args[0]
            if not isinstance(v, Arr):
                raise Unsupported('np.count_nonzero of %s' % type(v).__name__)
            ind = Arr(v.shape, lambda *i: z3.If(B(v.f(*i)) if isinstance(v.f(*i), (bool, z3.BoolRef)) else Z(v.f(*i)) != 0, 1, 0), 'int', 'fresh')
            return Red('sum', ind, kwargs.get('axis', args[1] if len(args) > 1 else None))
        if fn in ('sum', 'prod', 'all', 'any', 'min', 'max'):
            v = args[0]
            if isinstance(v, (Arr, Red)):
                return Red(fn, v, kwargs.get('axis', args[1] if len(args) > 1 else None))
            if isinstance(v, (bool, z3.BoolRef)) and fn in ('all', 'any'):
                return B(v)
            if isinstance(v, T):
                if fn in ('all', 'any'):
                    bs = [B(x) for x in v.items]
                    return z3.And(bs + [TRUE]) if fn == 'all' else z3.Or(bs + [FALSE])
                return self.builtin('builtin:' + fn, [v], {}, st, node)
            raise Unsupported('np.%s of %s' % (fn, type(v).__name__))
        if fn in ('hstack', 'concatenate'):
            parts = args[0].items if isinstance(args[0], T) else None
            if parts is not None and fn == 'concatenate' and len(parts) > 0 and all(isinstance(p, Arr) and p.rank == 2 for p in parts) and conc(kwargs.get('axis', 0)) == 0:
                # axis-0 concatenation of matrices: column extents must agree (numpy raises otherwise)
                for p in parts[1:]:
                    st.add_raise(z3.And(st.live, z3.Not(num2(parts[0].shape[1], p.shape[1], lambda x, y: x == y))), 'ValueError', getattr(node, 'lineno', 0))
                cols = [self.concat1([Arr((p.shape[0],), (lambda i, p=p: p.f(i, 0)), p.dtype) for p in parts], st)]
                rows = cols[0].shape[0]
                offs = [0]
                for p in parts:
                    offs.append(self.bin(ast.Add(), offs[-1], p.shape[0], st))

                def f2(i, j, parts=parts, offs=offs):
                    r = parts[-1].f(self.bin(ast.Sub(), i, offs[-2], st), j)
                    for k in range(len(parts) - 2, -1, -1):
                        r = ite(num2(i, offs[k + 1], lambda x, y: x < y), parts[k].f(self.bin(ast.Sub(), i, offs[k], st), j), r)
                    return r
                return Arr((rows, parts[0].shape[1]), f2, parts[0].dtype, 'fresh')
            if parts is None or not all(isinstance(p, Arr) and p.rank == 1 for p in parts):
                raise Unsupported('np.%s' % fn)
            return self.concat1(parts, st)
        if fn == 'isclose':
            # equal numbers are close; close numbers need not be equal: `a == b or CLOSE(a, b)` with CLOSE uninterpreted
            za, zb = Z(args[0]), Z(args[1])
            za = z3.ToReal(za) if za.is_int() else za
            zb = z3.ToReal(zb) if zb.is_int() else zb
            return z3.Or(za == zb, z3.Function('isclose', z3.RealSort(), z3.RealSort(), z3.BoolSort())(za, zb))
        if fn == 'inf':
            raise Unsupported('np.inf call')
        raise Unsupported('np.%s' % fn)

    def concat1(self, parts, st):
        offs = [0]
        for p in parts:
            offs.append(self.bin(ast.Add(), offs[-1], p.shape[0], st))

        def f(i):
            r = parts[-1].f(self.bin(ast.Sub(), i, offs[-2], st))
            for k in range(len(parts) - 2, -1, -1):
                r = ite(num2(i, offs[k + 1], lambda x, y: x < y), parts[k].f(self.bin(ast.Sub(), i, offs[k], st)), r)
            return r
        return Arr((offs[-1],), f, parts[0].dtype, 'fresh')

    def valmethod(self, v, name, args, kwargs, st, node=None):
        if isinstance(v, M):
            if name == 'keys':
                return ('valmethod', v, 'keys')
            if name == 'copy':
                return M(v.entries)
        if isinstance(v, D):
            if name in ('keys', 'items', 'values'):
                if name == 'keys':
                    return T([self._lift_key(k) for k in v.kv], 'list')
                if name == 'values':
                    return T(list(v.kv.values()), 'list')
                return T([T([self._lift_key(k), x]) for k, x in v.kv.items()], 'list')
            if name == 'copy':
                return D(v.kv)
            if name == 'get':
                k = conc(args[0])
                if k is None:
                    raise Unsupported('dict.get symbolic')
                return v.kv.get(k, args[1] if len(args) > 1 else NONE)
        if isinstance(v, T):
            if name == 'copy':
                return T(v.items, v.kind)
            if name == 'index':
                raise Unsupported('list.index')
        if isinstance(v, E) and v.is_const() and name in ('split', 'strip', 'lower', 'upper'):
            sv = v.alts[0][1]
            if name == 'split':
                sep = conc(args[0]) if args else None
                return T([E.const(p_) for p_ in sv.split(sep)], 'list')
            return E.const(getattr(sv, name)())
        if isinstance(v, (E, S)):
            if name == 'format':
                raise Unsupported('str.format')
            if name == 'zfill':
                return S(ZFILL(to_S(v), Z(args[0])))
            if name == 'join':
                return args[0]
        raise Unsupported('method %s of %s' % (name, type(v).__name__))

    def _lift_key(self, k):
        if isinstance(k, tuple):
            return T([self._lift_key(x) for x in k])
        if isinstance(k, str):
            return E.const(k)
        return k

    def arrmethod(self, a, name, args, kwargs, st, node=None):
        if name == 'copy':
            return Arr(a.shape, a.f, a.dtype, 'fresh', a.sparse)
        if name == 'astype':
            t = args[0]
            dt = conc(t) if not isinstance(t, Opaque) else t.tag.split('.')[-1]
            return Arr(a.shape, a.f, 'int' if dt in ('uint8', 'uint', 'int') else str(dt), 'fresh', a.sparse)
        if name == 'tolist':
            return a
        if name in ('sum', 'prod', 'all', 'any', 'min', 'max'):
            return Red(name, a, kwargs.get('axis', args[0] if args else None))
        h = self.intr.get('arr.' + name)
        if h is not None:
            return h(self, st, a, args, kwargs)
        if name == 'reshape':
            return self.reshape(a, args[0] if len(args) == 1 else T(list(args)))
        if name == 'toarray':
            return Arr(a.shape, a.f, a.dtype, 'fresh', False)
        if name == 'dot':
            return self.dot(a, args[0], st)
        raise Unsupported('ndarray.%s' % name)

    def reshape(self, a, shp):
        if not isinstance(a, Arr):
            raise Unsupported('reshape of %s' % type(a).__name__)
        new = tuple(shp.items) if isinstance(shp, T) else (shp,)
        if a.rank == 1 and len(new) == 2 and conc(new[0]) == 1:
            return Arr((1, new[1]), lambda r, c: a.f(c), a.dtype, a.owner, a.sparse)
        if a.rank == 2 and len(new) == 1:
            # (1, m) -> (m,)  or  (m, 1) -> (m,): decided by which extent is 1 (the other case is excluded by a side obligation)
            r0, c0 = conc(a.shape[0]), conc(a.shape[1])
            if r0 == 1:
                return Arr((new[0],), lambda i: a.f(0, i), a.dtype, a.owner, a.sparse)
            if c0 == 1:
                return Arr((new[0],), lambda i: a.f(i, 0), a.dtype, a.owner, a.sparse)
        if a.rank == len(new):
            return Arr(new, a.f, a.dtype, a.owner, a.sparse)
        # dropping axes of extent exactly 1 (C order): (t, 1, c) -> (t, c); the remaining extents must agree syntactically
        keep = [k for k, d0 in enumerate(a.shape) if conc(d0) != 1]
        if len(keep) == len(new) and all(conc(z3.simplify(Z(a.shape[k]) == Z(nd))) is True for k, nd in zip(keep, new)):
            def fsq(*i, keep=keep, rank=a.rank):
                full = [0] * rank
                for k, ix in zip(keep, i):
                    full[k] = ix
                return a.f(*full)
            return Arr(new, fsq, a.dtype, a.owner, a.sparse)
        raise Unsupported('reshape %s -> %s' % (a.shape, new))

    DOTS = []

    def dot(self, a, b, st):
        """A-numpy / A-scipy: (a.dot(b))[r, c] = (sum_k a[r,k] * b[k,c]) wrapped to the dtype.  The sum is an uninterpreted integer
        DOT_j(r, c); the pair of operands is recorded so that contracts can speak about the summand and its range."""
        if not (isinstance(a, Arr) and isinstance(b, Arr) and a.rank == 2 and b.rank == 2):
            raise Unsupported('dot of non-matrices')
        j = len(X.DOTS)
        F = z3.Function('DOT_%d' % j, z3.IntSort(), z3.IntSort(), z3.IntSort())
        X.DOTS.append(dict(F=F, a=a, b=b, inner=a.shape[1]))
        dt = 'uint8' if a.dtype == 'uint8' and b.dtype == 'uint8' else ('int64' if 'int64' in (a.dtype, b.dtype) else a.dtype)
        if dt == 'uint8':
            return Arr((a.shape[0], b.shape[1]), lambda r, c: F(Z(r), Z(c)) % 256, dt, 'fresh', a.sparse or b.sparse)
        return Arr((a.shape[0], b.shape[1]), lambda r, c: F(Z(r), Z(c)), dt, 'fresh', a.sparse or b.sparse)

    # comprehensions --------------------------------------------------------------
    def ev_ListComp(self, e, env, st):
        return self._comp(e, env, st, 'list')

    def ev_GeneratorExp(self, e, env, st):
        return self._comp(e, env, st, 'list')

    def ev_DictComp(self, e, env, st):
        return self._comp(e, env, st, 'dict')

    def _comp(self, e, env, st, kind):
        if len(e.generators) != 1:
            raise Unsupported('nested comprehension')
        g = e.generators[0]
        it = self.ev(g.iter, env, st)
        if isinstance(it, R):
            ca, cb = conc(it.a), conc(it.b)
            if isinstance(it.b, z3.ExprRef) or ca is None or cb is None:
                # pointwise comprehension over a symbolic range -> abstract array
                if kind != 'list' or g.ifs or conc(it.a) != 0 or conc(it.st) != 1 or not isinstance(g.target, ast.Name):
                    raise Unsupported('comprehension over symbolic range')

                live_c = st.live

                def f(i, e=e, env=env, g=g):
                    env2 = dict(env); env2[g.target.id] = i
                    self.comp_idx = self.comp_idx + [i]
                    ls = self.lazy_st()
                    if ls is not self._lazy:
                        ls.live = live_c
                    try:
                        return self.ev(e.elt, env2, ls)
                    finally:
                        self.comp_idx = self.comp_idx[:-1]
                self.eager((it.b,), f, st)
                return Arr((it.b,), f, 'obj', 'fresh')
            it = self._range_items(it)
        if isinstance(it, tuple) and it and it[0] in ('zip', 'enumerate') and kind == 'list' and not g.ifs:
            # comprehension over zip(...) / enumerate(...) of symbolic sequences: the i-th element is the tuple of the i-th elements
            seqs = [it[1]] if it[0] == 'enumerate' else list(it[1])
            n0 = seqs[0].shape[0]
            for a_ in seqs[1:]:
                if conc(z3.simplify(Z(a_.shape[0]) == Z(n0))) is not True:
                    raise Unsupported('zip over sequences of different (symbolic) length')
            it = Arr((n0,), (lambda i, seqs=seqs, kind_=it[0]: T([i, seqs[0].f(i)]) if kind_ == 'enumerate' else T([a_.f(i) for a_ in seqs])), 'obj', 'fresh')
        if isinstance(it, Arr) and it.rank == 1 and kind == 'list' and not g.ifs:
            live_c = st.live

            def f2(i, e=e, env=env, g=g, it=it):
                env2 = dict(env)
                ls = self.lazy_st()
                if ls is not self._lazy:
                    ls.live = live_c
                self.assign(g.target, it.f(i), env2, ls)
                self.comp_idx = self.comp_idx + [i]          # the element index is the generic iteration index (hooks keyed on it, e.g. one draw per qubit)
                try:
                    return self.ev(e.elt, env2, ls)
                finally:
                    self.comp_idx = self.comp_idx[:-1]
            self.eager(it.shape, f2, st)
            return Arr(it.shape, f2, 'obj', 'fresh')
        if hasattr(it, 'acc_comp'):
            return it.acc_comp(self, st, e, env, kind)
        if not isinstance(it, T):
            h = self.intr.get(('comp', getattr(it, 'tag', type(it).__name__)))
            if h is not None:
                return h(self, st, e, env, it, kind)
            raise Unsupported('comprehension over %s' % type(it).__name__)
        out_l, out_d, guards, symbolic = [], {}, [], False
        if getattr(it, 'guards', None):
            raise Unsupported('comprehension over a guarded list')
        for item in it.items:
            env2 = dict(env)
            self.assign(g.target, item, env2, st)
            conds = [z3.simplify(B(self.ev(c, env2, st))) for c in g.ifs]
            if any(z3.is_false(c) for c in conds):
                continue
            if not all(z3.is_true(c) for c in conds):
                if kind != 'list':
                    raise Unsupported('symbolic comprehension filter')
                guards.append(z3.And(conds))
                out_l.append(self.ev(e.elt, env2, st))
                symbolic = True
                continue
            guards.append(TRUE)
            if kind == 'dict':
                out_d[self._constkey(self.ev(e.key, env2, st))] = self.ev(e.value, env2, st)
            else:
                out_l.append(self.ev(e.elt, env2, st))
        if kind == 'dict':
            return D(out_d)
        r = T(out_l, 'list')
        if symbolic:
            r.guards = guards       # element k is present iff guards[k]
        return r

    # ---------------------------------------------------------------- statements
    def assign(self, tgt, val, env, st):
        if isinstance(tgt, ast.Name):
            env[tgt.id] = val
        elif isinstance(tgt, (ast.Tuple, ast.List)):
            if isinstance(val, Alt):
                val = self._collapse(val)
            if isinstance(val, Arr) and val.rank == 1:
                n = conc(val.shape[0])
                if n is None:
                    raise Unsupported('unpack symbolic-length array')
                val = T([val.f(k) for k in range(n)])
            if not isinstance(val, T) or len(val.items) != len(tgt.elts):
                raise Unsupported('unpack of %s' % type(val).__name__)
            for t, v in zip(tgt.elts, val.items):
                self.assign(t, v, env, st)
        elif isinstance(tgt, ast.Subscript):
            base = self.ev(tgt.value, env, st)
            if hasattr(base, 'acc_store'):
                base.acc_store(self, st, self.ev(tgt.slice, env, st), val)
                return
            if isinstance(base, M):
                key = self.ev(tgt.slice, env, st)
                if isinstance(val, str):
                    val = E.const(val)
                new = M(base.entries + [(st.live, key, val)])
                self._store_back(tgt.value, new, env, st)
                return
            if isinstance(base, D):
                key = self.ev(tgt.slice, env, st)
                if isinstance(key, E) and not key.is_const():
                    kv = dict(base.kv)
                    for c, s_ in key.alts:
                        if s_ in kv:
                            kv[s_] = ite(z3.And(st.live, c), val, kv[s_])
                        else:
                            raise Unsupported('symbolic new dict key')
                    self._store_back(tgt.value, D(kv), env, st)
                    return
                ck = self._constkey(key)
                kv = dict(base.kv)
                kv[ck] = ite(st.live, val, kv[ck]) if ck in kv and not z3.is_true(z3.simplify(st.live)) else val
                self._store_back(tgt.value, D(kv), env, st)
                return
            if isinstance(base, Arr):
                new = self.arr_store(base, tgt.slice, val, env, st)
                self._store_back(tgt.value, new, env, st)
                return
            raise Unsupported('subscript assign to %s' % type(base).__name__)
        elif isinstance(tgt, ast.Attribute):
            obj = self.ev(tgt.value, env, st)
            if isinstance(obj, Obj):
                old = obj.fields.get(tgt.attr, Undef())
                obj.fields[tgt.attr] = val if z3.is_true(z3.simplify(st.live)) else ite(st.live, val, old)
                st.effects.append(('setattr', obj.tag, tgt.attr))
                return
            raise Unsupported('attribute assign')
        else:
            raise Unsupported('assign target %s' % type(tgt).__name__)

    def _store_back(self, node, new, env, st):
        """write a functionally-updated container back to the variable / field / dict slot naming it"""
        if isinstance(node, ast.Name):
            old_ = env.get(node.id)
            env[node.id] = new
            self._log_rebind(old_, new, env)
        elif isinstance(node, ast.Subscript):
            base = self.ev(node.value, env, st)
            if isinstance(base, D):
                key = self.ev(node.slice, env, st)
                if isinstance(key, E) and not key.is_const():
                    kv = dict(base.kv)
                    for c, s_ in key.alts:
                        # `new` was computed for the merged element; select per alternative
                        kv[s_] = ite(c, new, kv[s_])
                    self._store_back(node.value, D(kv), env, st)
                    return
                kv = dict(base.kv); kv[self._constkey(key)] = new
                self._store_back(node.value, D(kv), env, st)
                return
            raise Unsupported('nested store')
        elif isinstance(node, ast.Attribute):
            obj = self.ev(node.value, env, st)
            if isinstance(obj, Obj):
                old_ = obj.fields.get(node.attr)
                obj.fields[node.attr] = new
                self._log_rebind(old_, new, env)
                return
            raise Unsupported('store to attribute')
        else:
            raise Unsupported('store target')

    def arr_store(self, a, sl, val, env, st):
        idx = list(sl.elts) if isinstance(sl, ast.Tuple) else [sl]
        specs = []
        for s_ in idx:
            if isinstance(s_, ast.Slice):
                if s_.step is not None:
                    raise Unsupported('slice step')
                lo = self.ev(s_.lower, env, st) if s_.lower else 0
                hi = self.ev(s_.upper, env, st) if s_.upper else None
                specs.append(('slice', lo, hi))
            else:
                v = self.ev(s_, env, st)
                if isinstance(v, (Arr, T)):
                    h = self.intr.get('arr:advanced_store')
                    if h is None:
                        raise Unsupported('advanced store')
                    return h(self, st, a, v, val)
                specs.append(('int', v))
        while len(specs) < a.rank:
            specs.append(('slice', 0, None))
        live = st.live

        def f(*i, a=a, specs=specs, val=val, live=live):
            conds, sub = [live], []
            for ax, (ix, s_) in enumerate(zip(i, specs)):
                if s_[0] == 'int':
                    conds.append(num2(ix, s_[1], lambda x, y: x == y))
                else:
                    lo = s_[1]; hi = a.shape[ax] if s_[2] is None else s_[2]
                    conds.append(z3.And(num2(ix, lo, lambda x, y: x >= y), num2(ix, hi, lambda x, y: x < y)))
                    sub.append(self.bin(ast.Sub(), ix, lo, st))
            new = val.f(*sub[len(sub) - val.rank:]) if isinstance(val, Arr) else val
            return ite(z3.simplify(z3.And(conds)), new, a.f(*i))
        st.effects.append(('arrwrite', a.owner))
        return Arr(a.shape, f, a.dtype, a.owner, a.sparse)

    def block(self, body, env, st):
        for s in body:
            if z3.is_false(z3.simplify(st.live)):
                return
            m = getattr(self, 'st_' + type(s).__name__, None)
            if m is None:
                raise Unsupported('stmt %s (line %d)' % (type(s).__name__, s.lineno))
            m(s, env, st)

    def st_Expr(self, s, env, st):
        if isinstance(s.value, ast.Constant):
            return
        v = s.value
        # mutating method calls: list.append / dict.pop
        if isinstance(v, ast.Call) and isinstance(v.func, ast.Attribute) and v.func.attr in ('append', 'pop', 'extend'):
            base = self.ev(v.func.value, env, st)
            if hasattr(base, 'acc_append') and v.func.attr == 'append':
                base.acc_append(self, st, self.ev(v.args[0], env, st))
                return
            if isinstance(base, Alt) and v.func.attr == 'append' and all(isinstance(b, T) for _, b in base.alts):
                item = self.ev(v.args[0], env, st)
                self._store_back(v.func.value, Alt([(c, T(b.items + [item], b.kind)) for c, b in base.alts], base.partial), env, st)
                return
            if isinstance(base, T) and v.func.attr == 'append':
                self._store_back(v.func.value, T(base.items + [self.ev(v.args[0], env, st)], base.kind), env, st)
                return
            if isinstance(base, T) and v.func.attr == 'extend':
                ext = self.ev(v.args[0], env, st)
                if not isinstance(ext, T):
                    raise Unsupported('extend')
                self._store_back(v.func.value, T(base.items + ext.items, base.kind), env, st)
                return
            if isinstance(base, M) and v.func.attr == 'pop':
                key = self.ev(v.args[0], env, st)
                st.add_raise(z3.Not(self.map_has(base, key)), 'KeyError', s.lineno)
                self._store_back(v.func.value, M(base.entries + [(st.live, key, None)]), env, st)
                return
        self.ev(v, env, st)

    def st_Pass(self, s, env, st):
        pass

    def st_Assign(self, s, env, st):
        try:
            val = self.ev(s.value, env, st)
        except Unsupported:
            val = self.native_closed(s.value, env)
            if val is None:
                raise
        for t in s.targets:
            self.assign(t, val, env, st)

    def native_closed(self, node, env):
        """closed sub-expression (no symbolic input): evaluate natively, import the result as a literal"""
        ns = {'np': np, 'itertools': itertools, 'list': list, 'tuple': tuple, 'range': range, 'len': len, 'int': int}
        for n in ast.walk(node):
            if isinstance(n, ast.Name) and n.id not in ns:
                if n.id not in env:
                    return None
                py = self._to_py(env[n.id])
                if py is None:
                    return None
                ns[n.id] = py
        try:
            r = eval(compile(ast.Expression(body=node), '<closed>', 'eval'), {'__builtins__': {}}, ns)
        except Exception:
            return None
        self.native_literals.append(ast.unparse(node)[:120])
        return self._from_py(r)

    native_literals = []

    def _to_py(self, v):
        if isinstance(v, (bool, int, float, str, np.integer, np.floating)):
            return v
        if isinstance(v, T):
            items = [self._to_py(x) for x in v.items]
            if any(i is None for i in items):
                return None
            return np.array(items) if v.kind == 'vec' else (tuple(items) if v.kind == 'tuple' else items)
        if isinstance(v, E) and v.is_const():
            return v.alts[0][1]
        return None

    def _from_py(self, r):
        if isinstance(r, np.ndarray):
            return self._from_py(r.tolist()) if r.ndim else r.item()
        if isinstance(r, (list, tuple)):
            return T([self._from_py(x) for x in r], 'list' if isinstance(r, list) else 'tuple')
        if isinstance(r, (bool, int, float, np.integer, np.floating)):
            return r.item() if isinstance(r, (np.integer, np.floating)) else r
        if isinstance(r, str):
            return E.const(r)
        raise Unsupported('native literal of type %s' % type(r).__name__)

    def st_AnnAssign(self, s, env, st):
        if s.value is not None:
            self.assign(s.target, self.ev(s.value, env, st), env, st)

    def st_AugAssign(self, s, env, st):
        if isinstance(s.target, ast.Attribute) and s.target.attr == 'data':
            base = self.ev(s.target.value, env, st)
            if isinstance(base, Arr) and base.sparse:
                # stored values of a sparse matrix updated element-wise; implicit zeros stay zero only for ops with f(0)=0 (checked for % and *)
                if not isinstance(s.op, (ast.Mod, ast.Mult)):
                    raise Unsupported('in-place %s on sparse data' % type(s.op).__name__)
                v = self.ev(s.value, env, st)
                new = self.bin(s.op, base, v, st, s)
                new = Arr(new.shape, new.f, base.dtype, base.owner, True)
                self._store_back(s.target.value, new, env, st)
                return
        cur = self.ev(s.target, env, st)
        v = self.ev(s.value, env, st)
        if isinstance(cur, T) and isinstance(s.op, ast.Add) and isinstance(v, T):
            new = T(cur.items + v.items, cur.kind)
        else:
            new = self.bin(s.op, cur, v, st, s)
        if isinstance(cur, Arr) and isinstance(new, Arr):
            new = Arr(new.shape, new.f, cur.dtype, cur.owner, cur.sparse)   # in-place: same object
            st.effects.append(('arrwrite', cur.owner))
        self.assign(s.target, new, env, st)

    def st_Return(self, s, env, st):
        v = self.ev(s.value, env, st) if s.value is not None else NONE
        live = z3.simplify(st.live)
        st.ret = v if isinstance(st.ret, Undef) else ite(live, v, st.ret)
        st.live = FALSE

    def st_Raise(self, s, env, st):
        name = 'Exception'
        if s.exc is not None:
            if isinstance(s.exc, ast.Call):
                name = ast.unparse(s.exc.func)
            else:
                name = ast.unparse(s.exc)
        st.add_raise(TRUE, name, s.lineno)

    def st_Assert(self, s, env, st):
        c = B(self.ev(s.test, env, st))
        st.add_raise(z3.Not(c), 'AssertionError', s.lineno)

    prune_with_solver = False

    def st_If(self, s, env, st):
        c = z3.simplify(B(self.ev(s.test, env, st)))
        if self.prune_with_solver and not z3.is_true(c) and not z3.is_false(c):
            # infeasible paths pruned by a solver call under the current path condition
            sol = z3.Solver(); sol.set('timeout', 2000); sol.add(st.live)
            sol.push(); sol.add(c)
            if sol.check() == z3.unsat:
                c = FALSE
            else:
                sol.pop(); sol.add(z3.Not(c))
                if sol.check() == z3.unsat:
                    c = TRUE
        if z3.is_true(c):
            return self.block(s.body, env, st)
        if z3.is_false(c):
            return self.block(s.orelse, env, st)
        live = st.live
        e1, e2 = dict(env), dict(env)
        s1, s2 = St(z3.And(live, c)), St(z3.And(live, z3.Not(c)))
        s1.ret = s2.ret = st.ret
        if getattr(st, 'cont', None) is not None:
            s1.cont = s2.cont = FALSE
        o1 = self._snapshot_objs(env)
        self.block(s.body, e1, s1)
        o1b = self._snapshot_objs(env); self._restore_objs(o1)
        self.block(s.orelse, e2, s2)
        o2b = self._snapshot_objs(env)
        self._merge_objs(c, o1b, o2b)
        for k in list(dict.fromkeys(list(e1) + list(e2))):
            a = e1.get(k, Undef()); b = e2.get(k, Undef())
            env[k] = a if a is b else ite(c, a, b)
        r1, r2 = s1.ret, s2.ret
        st.ret = r1 if r1 is r2 else ite(c, r1, r2)
        st.raises += s1.raises + s2.raises
        st.side += s1.side + s2.side
        st.effects += s1.effects + s2.effects
        st.live = z3.simplify(z3.Or(s1.live, s2.live))
        if getattr(st, 'cont', None) is not None:
            st.cont = z3.Or(st.cont, s1.cont, s2.cont)

    # objects are mutable: snapshot / merge their fields across branches
    def _objs(self, env):
        seen, out = set(), []

        def walk(v):
            if isinstance(v, Obj) and id(v) not in seen:
                seen.add(id(v)); out.append(v)
                for f in v.fields.values():
                    walk(f)
        for v in env.values():
            walk(v)
        return out

    def _snapshot_objs(self, env):
        return [(o, dict(o.fields)) for o in self._objs(env)]

    def _restore_objs(self, snap):
        for o, f in snap:
            o.fields = dict(f)

    def _merge_objs(self, c, a, b):
        bm = {id(o): f for o, f in b}
        for o, fa in a:
            fb = bm.get(id(o), fa)
            merged = {}
            for k in list(dict.fromkeys(list(fa) + list(fb))):
                x, y = fa.get(k, Undef()), fb.get(k, Undef())
                merged[k] = x if x is y else ite(c, x, y)
            o.fields = merged

    def st_For(self, s, env, st):
        if s.orelse:
            raise Unsupported('for-else')
        it = self.ev(s.iter, env, st)
        self.for_over(s, it, env, st)

    def for_over(self, s, it, env, st):
        if isinstance(it, tuple) and it and it[0] == 'valmethod' and isinstance(it[1], T):
            it = it[1]
        if isinstance(it, tuple) and it and it[0] == 'accmethod' and it[2] in ('keys', 'items'):
            try:
                it[1].iter_kind = it[2]
            except AttributeError:
                pass
            it = it[1]
        if isinstance(it, tuple) and it and it[0] == 'valmethod' and isinstance(it[1], M) and it[2] == 'keys':
            h = self.intr.get('loop:mapkeys')
            if h is not None:
                return h(self, st, s, it[1], env)
        if isinstance(it, R):
            try:
                it = self._range_items(it)
            except Unsupported:
                h = self.intr.get('loop:range')
                if h is not None:
                    return h(self, st, s, it, env)
                raise
        if isinstance(it, tuple) and it and it[0] == 'product':
            lists = []
            try:
                for r in it[1]:
                    r = self._range_items(r) if isinstance(r, R) else r
                    if not isinstance(r, T):
                        raise Unsupported('product over symbolic')
                    lists.append(r.items)
            except Unsupported:
                h = self.intr.get('loop:product')
                if h is not None:
                    return h(self, st, s, it[1], env)
                raise
            it = T([T(list(c)) for c in itertools.product(*lists)], 'list')
        if isinstance(it, tuple) and it and it[0] in ('enumerate', 'zip') and (isinstance(it[1], Arr) or isinstance(it[1], list)):
            # desugared to the index loop `for i in range(n): targets = seq_k[i]; body`, which the registered range-loop rule (e.g. R-pointwise) handles
            seqs = [it[1]] if it[0] == 'enumerate' else list(it[1])
            n0 = seqs[0].shape[0]
            for a_ in seqs[1:]:
                if conc(z3.simplify(Z(a_.shape[0]) == Z(n0))) is not True:
                    raise Unsupported('zip over sequences of different (symbolic) length')
            tag_ = next(self.fresh_id)
            ivar = '__i%d' % tag_
            names = []
            for k_, a_ in enumerate(seqs):
                nm_ = '__seq%d_%d' % (tag_, k_); env[nm_] = a_; names.append(nm_)
            elem = lambda nm_: ast.Subscript(value=ast.Name(id=nm_, ctx=ast.Load()), slice=ast.Name(id=ivar, ctx=ast.Load()), ctx=ast.Load())     # noqa
            if it[0] == 'enumerate':
                if not (isinstance(s.target, ast.Tuple) and len(s.target.elts) == 2):
                    raise Unsupported('enumerate target')
                pre = [ast.Assign(targets=[s.target.elts[0]], value=ast.Name(id=ivar, ctx=ast.Load())), ast.Assign(targets=[s.target.elts[1]], value=elem(names[0]))]
            elif isinstance(s.target, ast.Tuple) and len(s.target.elts) == len(seqs):
                pre = [ast.Assign(targets=[t_], value=elem(nm_)) for t_, nm_ in zip(s.target.elts, names)]
            else:
                pre = [ast.Assign(targets=[s.target], value=ast.Tuple(elts=[elem(nm_) for nm_ in names], ctx=ast.Load()))]
            new_for = ast.For(target=ast.Name(id=ivar, ctx=ast.Store()), iter=s.iter, body=pre + list(s.body), orelse=[], lineno=s.lineno, col_offset=0)
            for nd_ in pre:
                ast.copy_location(nd_, s)
            ast.fix_missing_locations(new_for)
            return self.for_over(new_for, R(0, n0, 1), env, st)
        if isinstance(it, Alt):
            outer = st.live
            for cond, lst in it.alts:
                st.live = z3.simplify(z3.And(outer, cond))
                self.for_over(s, lst, env, st)
            st.live = z3.simplify(z3.And(outer, z3.Not(st.raised())))
            return
        if isinstance(it, T):
            if len(it.items) > self.max_unroll * 4:
                raise Unsupported('loop too long to unroll')
            gs = getattr(it, 'guards', None)
            outer = st.live
            for k, item in enumerate(it.items):
                if gs:
                    st.live = z3.simplify(z3.And(outer, gs[k]))
                self.assign(s.target, item, env, st)
                self._loop_body(s.body, env, st)
            if gs:
                st.live = z3.simplify(z3.And(outer, z3.Not(st.raised())))
            return
        if hasattr(it, 'acc_loop'):
            return it.acc_loop(self, st, s, env)
        h = self.intr.get(('loop', getattr(it, 'tag', it[0] if isinstance(it, tuple) else type(it).__name__)))
        if h is not None:
            return h(self, st, s, it, env)
        raise Unsupported('for over %s (line %d)' % (type(it).__name__ if not isinstance(it, tuple) else it[0], s.lineno))

    def _loop_body(self, body, env, st):
        """one iteration of a loop body; `continue` ends the iteration on the paths that reach it (break is outside the subset)"""
        for x in ast.walk(ast.Module(body=body, type_ignores=[])):
            if isinstance(x, ast.Break):
                raise Unsupported('break')
        saved = getattr(st, 'cont', None)
        st.cont = FALSE
        self.block(body, env, st)
        st.live = z3.simplify(z3.Or(st.live, st.cont))
        st.cont = saved

    loop_body = _loop_body

    def st_Continue(self, s, env, st):
        if getattr(st, 'cont', None) is None:
            raise Unsupported('continue outside a modelled loop')
        st.cont = z3.Or(st.cont, st.live)
        st.live = FALSE

    def st_While(self, s, env, st):
        h = self.intr.get('loop:while')
        if h is not None:
            return h(self, st, s, env)
        raise Unsupported('while loop (line %d)' % s.lineno)

    def st_FunctionDef(self, s, env, st):
        env[s.name] = FuncSrc(self.module.path, s.name, s, None, self.module)

    def st_Import(self, s, env, st):
        pass

    def st_ImportFrom(self, s, env, st):
        pass

    def st_With(self, s, env, st):
        h = self.intr.get('stmt:with')
        if h is not None:
            return h(self, st, s, env)
        raise Unsupported('with (line %d)' % s.lineno)

    def st_Try(self, s, env, st):
        raise Unsupported('try (line %d)' % s.lineno)

    def st_Delete(self, s, env, st):
        raise Unsupported('del')



class Poison:
    def __init__(self, why):
        self.why = why


class TolerantX(X):
    """executor for *slices* of large functions: a statement whose value is outside the subset poisons the names it assigns (using a
    poisoned name later is Unsupported); expression statements outside the subset are skipped and recorded in `dropped`.
    What is dropped is reported in the evidence of the obligation that uses the slice."""
    def __init__(self, *a, **k):
        X.__init__(self, *a, **k)
        self.dropped = []

    def st_Assign(self, s, env, st):
        try:
            return X.st_Assign(self, s, env, st)
        except Unsupported as e:
            self.dropped.append('line %d: %s  [%s]' % (s.lineno, ast.unparse(s)[:80], str(e)[:60]))
            for t in s.targets:
                for n in ast.walk(t):
                    if isinstance(n, ast.Name):
                        env[n.id] = Poison(str(e))

    def st_AnnAssign(self, s, env, st):
        try:
            return X.st_AnnAssign(self, s, env, st)
        except Unsupported as e:
            self.dropped.append('line %d: %s' % (s.lineno, ast.unparse(s)[:80]))
            if isinstance(s.target, ast.Name):
                env[s.target.id] = Poison(str(e))

    def st_Expr(self, s, env, st):
        try:
            return X.st_Expr(self, s, env, st)
        except Unsupported as e:
            self.dropped.append('line %d: %s  [%s]' % (s.lineno, ast.unparse(s)[:80], str(e)[:60]))

    def ev_Name(self, e, env, st):
        v = env.get(e.id)
        if isinstance(v, Poison):
            raise Unsupported('value outside the subset (%s)' % v.why)
        return X.ev_Name(self, e, env, st)
