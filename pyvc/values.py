"""Symbolic value domain of pyvc (see DESIGN.md 2.2)."""
import fractions
import numpy as np
import z3
from .source import Unsupported


class T:
    """tuple / list / small fixed-arity vector"""
    def __init__(self, items, kind='tuple'):
        self.items = list(items); self.kind = kind

    def __repr__(self):
        return 'T%r' % (self.items,)


class E:
    """symbolic string over a finite set of literals: list of (cond, str)"""
    def __init__(self, alts):
        self.alts = [(c, v) for c, v in alts]

    @staticmethod
    def const(v):
        return E([(z3.BoolVal(True), v)])

    def is_const(self):
        return len(self.alts) == 1 and z3.is_true(self.alts[0][0])

    def __repr__(self):
        return 'E%r' % ([v for _, v in self.alts],)


class M:
    """finite insertion-ordered map: entries (guard, key, value); a later equal key overwrites;
    `pops` are (guard, key) removals interleaved by position"""
    def __init__(self, entries=None):
        self.entries = list(entries or [])


class D:
    """dict with constant keys"""
    def __init__(self, kv):
        self.kv = dict(kv)


class Alt:
    """guarded union of values of different shape; partial => may be undefined"""
    def __init__(self, alts, partial=False):
        self.alts = list(alts); self.partial = partial


class NoneV:
    def __repr__(self):
        return 'NoneV'


NONE = NoneV()


class Undef:
    pass


class R:
    """range(a, b, st)"""
    def __init__(self, a, b, st):
        self.a, self.b, self.st = a, b, st


class Arr:
    """abstract numpy array: rank, shape, element function, dtype tag, owner tag"""
    def __init__(self, shape, f, dtype='float', owner='fresh', sparse=False):
        self.shape = tuple(shape); self.f = f; self.dtype = dtype; self.owner = owner; self.sparse = sparse

    @property
    def rank(self):
        return len(self.shape)


class Obj:
    """object with symbolic fields; cls is a ClassSrc (methods resolved from the real source)"""
    def __init__(self, cls=None, fields=None, tag='obj'):
        self.cls = cls; self.fields = dict(fields or {}); self.tag = tag


class Closure:
    def __init__(self, node, env, x):
        self.node, self.env, self.x = node, env, x


class Opaque:
    """value pyvc does not interpret (only passed around)"""
    def __init__(self, tag):
        self.tag = tag


# ------------------------------------------------------------------ coercions
def is_num(v):
    return isinstance(v, (int, float, np.integer, np.floating, fractions.Fraction, z3.ArithRef)) and not isinstance(v, bool)


def Z(v):
    """to z3 arithmetic term"""
    if isinstance(v, z3.ArithRef):
        return v
    if isinstance(v, (bool, np.bool_)):
        return z3.IntVal(1 if v else 0)
    if isinstance(v, (int, np.integer)):
        return z3.IntVal(int(v))
    if isinstance(v, (float, np.floating)):
        fr = fractions.Fraction(repr(float(v))) if np.isfinite(v) else None
        if fr is None:
            raise Unsupported('non-finite float')
        return z3.RealVal(str(fr))
    if isinstance(v, fractions.Fraction):
        return z3.RealVal(str(v))
    if isinstance(v, z3.BoolRef):
        return z3.If(v, z3.IntVal(1), z3.IntVal(0))
    raise Unsupported('arith of %s' % type(v).__name__)


def is_real(v):
    return (isinstance(v, z3.ArithRef) and v.is_real()) or isinstance(v, (float, np.floating, fractions.Fraction))


def B(v):
    """Python truthiness as z3 Bool"""
    if isinstance(v, (bool, np.bool_)):
        return z3.BoolVal(bool(v))
    if isinstance(v, z3.BoolRef):
        return v
    if isinstance(v, (int, np.integer, float)):
        return z3.BoolVal(v != 0)
    if isinstance(v, z3.ArithRef):
        return v != 0
    if isinstance(v, NoneV):
        return z3.BoolVal(False)
    if isinstance(v, T):
        return z3.BoolVal(len(v.items) > 0)
    if isinstance(v, E):
        return z3.Or([c for c, s in v.alts if s != ''] + [z3.BoolVal(False)])
    if isinstance(v, Alt):
        return z3.Or([z3.And(c, B(x)) for c, x in v.alts] + [z3.BoolVal(False)])
    if type(v).__name__ == 'Red':
        from .symex import red_const
        return B(red_const(v))
    raise Unsupported('truth value of %s' % type(v).__name__)


def conc(v):
    """concrete python value if v is one, else None"""
    if isinstance(v, (bool, int, float, str, np.integer, np.floating)):
        return v
    if isinstance(v, z3.ExprRef):
        s = z3.simplify(v)
        if z3.is_int_value(s):
            return s.as_long()
        if z3.is_true(s):
            return True
        if z3.is_false(s):
            return False
    if isinstance(v, E) and v.is_const():
        return v.alts[0][1]
    return None


def ite(c, a, b):
    """merge two values under condition c"""
    if a is b:
        return a
    if z3.is_true(c):
        return a
    if z3.is_false(c):
        return b
    if isinstance(a, Undef) and isinstance(b, Undef):
        return a
    if isinstance(a, Undef):
        return Alt([(z3.Not(c), b)], partial=True) if not isinstance(b, Alt) else Alt([(z3.And(z3.Not(c), k), v) for k, v in b.alts], partial=True)
    if isinstance(b, Undef):
        return Alt([(c, a)], partial=True) if not isinstance(a, Alt) else Alt([(z3.And(c, k), v) for k, v in a.alts], partial=True)
    if isinstance(a, str):
        a = E.const(a)
    if isinstance(b, str):
        b = E.const(b)
    if isinstance(a, T) and isinstance(b, T) and len(a.items) == len(b.items):
        try:
            return T([ite(c, x, y) for x, y in zip(a.items, b.items)], a.kind)
        except Unsupported:
            pass
    if isinstance(a, E) and isinstance(b, E):
        return E([(z3.And(c, k), v) for k, v in a.alts] + [(z3.And(z3.Not(c), k), v) for k, v in b.alts])
    if isinstance(a, M) and isinstance(b, M):
        n = 0
        while n < len(a.entries) and n < len(b.entries) and a.entries[n] is b.entries[n]:
            n += 1
        return M(a.entries[:n] + [(z3.And(c, g), k, v) for g, k, v in a.entries[n:]]
                 + [(z3.And(z3.Not(c), g), k, v) for g, k, v in b.entries[n:]])
    if isinstance(a, D) and isinstance(b, D) and list(a.kv) == list(b.kv):
        return D({k: ite(c, a.kv[k], b.kv[k]) for k in a.kv})
    if isinstance(a, (bool, np.bool_, z3.BoolRef)) and isinstance(b, (bool, np.bool_, z3.BoolRef)):
        return z3.If(c, B(a), B(b))
    if is_num(a) and is_num(b):
        za, zb = Z(a), Z(b)
        if za.is_real() != zb.is_real():
            za = z3.ToReal(za) if not za.is_real() else za
            zb = z3.ToReal(zb) if not zb.is_real() else zb
        return z3.If(c, za, zb)
    if isinstance(a, Arr) and isinstance(b, Arr) and a.rank == b.rank:
        sh = tuple(x if x is y else ite(c, x, y) for x, y in zip(a.shape, b.shape))
        return Arr(sh, lambda *i: ite(c, a.f(*i), b.f(*i)), a.dtype,
                   a.owner if a.owner == b.owner else 'mixed:%s|%s' % (a.owner, b.owner))
    if isinstance(a, NoneV) and isinstance(b, NoneV):
        return a
    # heterogeneous: guarded union
    la = [(z3.And(c, k), v) for k, v in a.alts] if isinstance(a, Alt) else [(c, a)]
    lb = [(z3.And(z3.Not(c), k), v) for k, v in b.alts] if isinstance(b, Alt) else [(z3.Not(c), b)]
    return Alt(la + lb, partial=(isinstance(a, Alt) and a.partial) or (isinstance(b, Alt) and b.partial))


def eq(a, b):
    """Python == as z3 Bool"""
    if isinstance(a, str):
        a = E.const(a)
    if isinstance(b, str):
        b = E.const(b)
    if isinstance(a, Alt):
        return z3.Or([z3.And(c, eq(v, b)) for c, v in a.alts] + [z3.BoolVal(False)])
    if isinstance(b, Alt):
        return z3.Or([z3.And(c, eq(a, v)) for c, v in b.alts] + [z3.BoolVal(False)])
    if isinstance(a, T) and isinstance(b, T):
        if len(a.items) != len(b.items):
            return z3.BoolVal(False)
        return z3.And([eq(x, y) for x, y in zip(a.items, b.items)] + [z3.BoolVal(True)])
    if isinstance(a, E) and isinstance(b, E):
        return z3.Or([z3.And(c1, c2) for c1, v1 in a.alts for c2, v2 in b.alts if v1 == v2] + [z3.BoolVal(False)])
    if isinstance(a, NoneV) or isinstance(b, NoneV):
        return z3.BoolVal(isinstance(a, NoneV) and isinstance(b, NoneV))
    if isinstance(a, (E, T)) or isinstance(b, (E, T)):
        return z3.BoolVal(False)
    if isinstance(a, (bool, np.bool_, z3.BoolRef)) and isinstance(b, (bool, np.bool_, z3.BoolRef)):
        return B(a) == B(b)
    if isinstance(a, (bool, np.bool_, z3.BoolRef)):
        a = Z(a)
    if isinstance(b, (bool, np.bool_, z3.BoolRef)):
        b = Z(b)
    if is_num(a) and is_num(b):
        return num2(a, b, lambda x, y: x == y)
    raise Unsupported('== of %s,%s' % (type(a).__name__, type(b).__name__))


def num2(a, b, op):
    za, zb = Z(a), Z(b)
    if za.is_real() != zb.is_real():
        za = z3.ToReal(za) if not za.is_real() else za
        zb = z3.ToReal(zb) if not zb.is_real() else zb
    return op(za, zb)


def py_floordiv(a, b):
    """Python // on ints (floor); z3 int div is floor only for positive divisors"""
    ca, cb = conc(a), conc(b)
    if isinstance(ca, (int, np.integer)) and isinstance(cb, (int, np.integer)) and cb != 0:
        return int(ca) // int(cb)
    a, b = Z(a), Z(b)
    if a.is_real() or b.is_real():
        raise Unsupported('real floor division')
    if isinstance(cb, (int, np.integer)) and cb > 0:
        return a / b
    return z3.If(b > 0, a / b, (-a) / (-b))


def py_mod(a, b):
    ca, cb = conc(a), conc(b)
    if isinstance(ca, (int, np.integer)) and isinstance(cb, (int, np.integer)) and cb != 0:
        return int(ca) % int(cb)
    a, b = Z(a), Z(b)
    if a.is_real() or b.is_real():
        raise Unsupported('real modulo')
    if isinstance(cb, (int, np.integer)) and cb > 0:
        return a % b
    return z3.If(b > 0, a % b, -((-a) % (-b)))
