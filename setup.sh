#!/bin/sh
# Build /verif/.venv offline: python3.12 venv layered over /venv's site-packages
# (panqec is installed there *editable* from /repo, so imports see the current tree),
# plus z3-solver / cvc5 / icontract / deal / jsonschema from the local wheelhouse.
set -e
cd "$(dirname "$0")"
export PIP_NO_INDEX=1 PIP_DISABLE_PIP_VERSION_CHECK=1
if [ ! -x .venv/bin/python ] || ! .venv/bin/python -c "import z3, icontract, jsonschema, cvc5, deal, panqec" 2>/dev/null; then
  rm -rf .venv
  /venv/bin/python -m venv .venv
  .venv/bin/pip install -q --no-index --find-links /opt/veriftools/wheels \
      z3-solver cvc5 icontract deal jsonschema
  SP=$(.venv/bin/python -c "import sysconfig;print(sysconfig.get_paths()['purelib'])")
  echo "import site; site.addsitedir('/venv/lib/python3.12/site-packages')" > "$SP/_overlay.pth"
fi
.venv/bin/python -c "import z3, icontract, jsonschema, cvc5, deal, panqec, numpy; print('verif venv ok: z3', z3.get_version_string(), 'numpy', numpy.__version__)"
mkdir -p evidence replays
