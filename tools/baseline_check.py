#!/usr/bin/env python3
"""runs the repository's pinned test suite (guard OFF) and compares with /root/.vp/BASELINE.json stable_pass"""
import json, subprocess, sys, tempfile, os, xml.etree.ElementTree as ET
b = json.load(open('/root/.vp/BASELINE.json'))
out = tempfile.mktemp(suffix='.xml')
env = dict(os.environ); env.pop('PANQEC_VERIF', None)
subprocess.run('cd /repo && /venv/bin/python -m pytest -ra -q -p no:cacheprovider --timeout=900 --continue-on-collection-errors --junitxml=%s >/dev/null 2>&1' % out, shell=True, env=env)
passed = set()
for tc in ET.parse(out).getroot().iter('testcase'):
    if not any(ch.tag in ('failure', 'error', 'skipped') for ch in tc):
        passed.add('%s::%s' % (tc.get('classname'), tc.get('name')))
want = set(b['stable_pass'])
missing = sorted(want - passed)
print('baseline stable_pass %d, passed now %d, missing %d' % (len(want), len(passed & want), len(missing)))
for m in missing[:20]:
    print('  MISSING', m)
os.unlink(out)
sys.exit(1 if missing else 0)
