#!/usr/bin/env python3
"""confirm_tests.py <seed-dir>...   runs the pinned test-suite on a scratch worktree of /repo with the seeded patch applied (never touches /repo's
working tree) and writes <seed-dir>/tests_confirmed.json: the pinned stable-pass tests that no longer pass (must be empty for a kept seed)."""
import json, os, subprocess, sys, tempfile, xml.etree.ElementTree as ET
for d in sys.argv[1:]:
    d = os.path.abspath(d)
    wt = tempfile.mkdtemp(prefix='seedwt_'); os.rmdir(wt)
    subprocess.check_call(['git', '-C', '/repo', 'worktree', 'add', '-q', '--detach', wt, 'HEAD'])
    try:
        ap = subprocess.run(['git', '-C', wt, 'apply', os.path.join(d, 'patch.diff')], capture_output=True, text=True)
        res = dict(patch_applies=ap.returncode == 0)
        if ap.returncode == 0:
            out = tempfile.mktemp(suffix='.xml')
            env = dict(os.environ, PYTHONPATH=wt); env.pop('PANQEC_VERIF', None)
            subprocess.run('cd %s && /venv/bin/python -m pytest -q -p no:cacheprovider --timeout=900 --continue-on-collection-errors --junitxml=%s >/dev/null 2>&1' % (wt, out), shell=True, env=env)
            passed = set()
            for tc in ET.parse(out).getroot().iter('testcase'):
                if not any(ch.tag in ('failure', 'error', 'skipped') for ch in tc):
                    passed.add('%s::%s' % (tc.get('classname'), tc.get('name')))
            want = set(json.load(open('/root/.vp/BASELINE.json'))['stable_pass'])
            res['baseline_total'] = len(want); res['baseline_missing'] = sorted(want - passed)[:10]
            os.unlink(out)
        json.dump(res, open(os.path.join(d, 'tests_confirmed.json'), 'w'), indent=1)
        print(d, res)
    finally:
        subprocess.call(['git', '-C', '/repo', 'worktree', 'remove', '--force', wt])
