#!/usr/bin/env python3
"""eval_preserving.py <id> <src-dir> [--all]
A PROPERTY-preserving change of behaviour written by an independent sub-agent (patch.diff, holds.py, meta.json in <src-dir>) is
 1. confirmed: holds.py (the agent's own direct check of the property) exits 0 on a clean scratch worktree and on one with the patch, and prints different digests
    (behaviour really changed); the pinned test-suite still passes with the patch;
 2. stored under /verif/preserving/<id>/;
 3. checked: every check whose functions under contract live in a file the patch touches (or all checks with --all) is run against the patched SCRATCH worktree
    (PANQEC_REPO=<scratch>; /repo and /verif/evidence are not touched).  Expected: exit 0 everywhere (obligations may be `lost`, never `VIOLATION`)."""
import json, glob, os, re, shutil, subprocess, sys, tempfile, xml.etree.ElementTree as ET
rid, src = sys.argv[1], sys.argv[2]
dst = '/verif/preserving/%s' % rid
os.makedirs(dst, exist_ok=True)
for f in ('patch.diff', 'holds.py', 'meta.json'):
    if os.path.abspath(os.path.join(src, f)) != os.path.join(dst, f) and os.path.exists(os.path.join(src, f)):
        shutil.copy(os.path.join(src, f), os.path.join(dst, f))
meta = json.load(open(os.path.join(dst, 'meta.json'))) if os.path.exists(os.path.join(dst, 'meta.json')) else {}
touched = sorted(set(re.findall(r'^\+\+\+ b/(\S+)', open(os.path.join(dst, 'patch.diff')).read(), re.M)))
# which checks look at these files
props = set()
for ev in glob.glob('/verif/evidence/C*.json'):
    e = json.load(open(ev))
    files = {f['function'].split('::')[0] for f in e['coverage'].get('functions_under_contract', [])}
    if '--all' in sys.argv or files & set(touched):
        props.add(e['property_id'])
if meta.get('property'):
    props.add(re.match(r'C\d\d', str(meta['property'])).group(0) if re.match(r'C\d\d', str(meta['property'])) else rid.split('-')[-1])
props = sorted(props)
wt = tempfile.mkdtemp(prefix='refwt_'); os.rmdir(wt)
subprocess.check_call(['git', '-C', '/repo', 'worktree', 'add', '-q', '--detach', wt, 'HEAD'])
res = dict(touched=touched, props=props)
try:
    def digest():
        r = subprocess.run(['/venv/bin/python', os.path.join(dst, 'holds.py')], cwd=wt, capture_output=True, text=True, timeout=3600, env=dict(os.environ, PYTHONPATH=wt, PYTHONWARNINGS='ignore', PYTHONHASHSEED='0'))
        return r.returncode, (r.stdout.strip().splitlines() or [''])[-1][-200:]
    res['digest_clean'] = digest()
    ap = subprocess.run(['git', '-C', wt, 'apply', os.path.join(dst, 'patch.diff')], capture_output=True, text=True)
    res['patch_applies'] = ap.returncode == 0
    if ap.returncode == 0:
        res['digest_patched'] = digest()
        res['property_holds_both'] = res['digest_clean'][0] == 0 and res['digest_patched'][0] == 0
        res['behaviour_changed'] = res['digest_clean'][1] != res['digest_patched'][1]
        if '--skip-tests' not in sys.argv:
            out = tempfile.mktemp(suffix='.xml')
            env = dict(os.environ, PYTHONPATH=wt); env.pop('PANQEC_VERIF', None)
            subprocess.run('cd %s && /venv/bin/python -m pytest -q -p no:cacheprovider --timeout=900 --continue-on-collection-errors --junitxml=%s >/dev/null 2>&1' % (wt, out), shell=True, env=env)
            passed = set()
            for tc in ET.parse(out).getroot().iter('testcase'):
                if not any(ch.tag in ('failure', 'error', 'skipped') for ch in tc):
                    passed.add('%s::%s' % (tc.get('classname'), tc.get('name')))
            want = set(json.load(open('/root/.vp/BASELINE.json'))['stable_pass'])
            res['baseline_missing'] = sorted(want - passed)[:10]
            os.unlink(out)
        checks = {}
        for pr in props:
            r = subprocess.run(['./check', pr], cwd='/verif', capture_output=True, text=True, env=dict(os.environ, PANQEC_REPO=wt, PYTHONPATH=wt))
            summ = [l for l in r.stdout.splitlines() if l.startswith(pr + ' tier=')]
            vio = [l[:220] for l in r.stdout.splitlines() if l.startswith('VIOLATION')]
            lost = int(re.search(r'lost=(\d+)', summ[0]).group(1)) if summ else None
            checks[pr] = dict(exit=r.returncode, lost=lost, violations=vio[:6], summary=summ[0][:160] if summ else r.stderr[-300:])
            print(pr, 'exit', r.returncode, 'lost', lost, vio[:2])
        res['checks'] = checks
        res['false_alarms'] = sorted(p for p, v in checks.items() if v['exit'] != 0)
finally:
    subprocess.call(['git', '-C', '/repo', 'worktree', 'remove', '--force', wt])
meta['evaluation'] = res
json.dump(meta, open(os.path.join(dst, 'meta.json'), 'w'), indent=1)
print(json.dumps({k: v for k, v in res.items() if k != 'checks'}, indent=1)[:1500])
