#!/usr/bin/env python3
"""eval_seed.py <seed-id> <src-dir> <prop> [<prop>...]
1. confirms the seeded change in a scratch worktree (demo fails with it / passes without it; pinned test-suite still passes with it),
2. stores it under /verif/seeded/<seed-id>/ (patch.diff, demo.py, meta.json),
3. applies it to /repo, runs the named checks, reverts /repo, and records which checks caught it in meta.json."""
import json, os, shutil, subprocess, sys, tempfile, xml.etree.ElementTree as ET
sid, src = sys.argv[1], sys.argv[2]
props = sys.argv[3:]
dst = '/verif/seeded/%s' % sid
os.makedirs(dst, exist_ok=True)
for f in ('patch.diff', 'demo.py', 'meta.json'):
    if os.path.abspath(os.path.join(src, f)) != os.path.join(dst, f):
        shutil.copy(os.path.join(src, f), os.path.join(dst, f))
meta = json.load(open(os.path.join(dst, 'meta.json')))
wt = tempfile.mkdtemp(prefix='seedwt_')
os.rmdir(wt)
subprocess.check_call(['git', '-C', '/repo', 'worktree', 'add', '-q', wt, 'HEAD'])
conf = {}
try:
    def demo():
        return subprocess.run(['/venv/bin/python', os.path.join(dst, 'demo.py')], cwd=wt, capture_output=True, text=True, timeout=1800,
                              env=dict(os.environ, PYTHONPATH=wt, PYTHONWARNINGS='ignore'))
    r0 = demo(); conf['demo_without_change_exit'] = r0.returncode
    ap = subprocess.run(['git', '-C', wt, 'apply', os.path.join(dst, 'patch.diff')], capture_output=True, text=True)
    conf['patch_applies'] = ap.returncode == 0
    if ap.returncode == 0:
        r1 = demo(); conf['demo_with_change_exit'] = r1.returncode; conf['demo_output'] = (r1.stdout + r1.stderr)[-400:]
        if '--skip-tests' not in sys.argv:
            out = tempfile.mktemp(suffix='.xml')
            env = dict(os.environ, PYTHONPATH=wt); env.pop('PANQEC_VERIF', None)
            subprocess.run('cd %s && /venv/bin/python -m pytest -q -p no:cacheprovider --timeout=900 --continue-on-collection-errors --junitxml=%s >/dev/null 2>&1' % (wt, out), shell=True, env=env)
            passed = set()
            for tc in ET.parse(out).getroot().iter('testcase'):
                if not any(ch.tag in ('failure', 'error', 'skipped') for ch in tc):
                    passed.add('%s::%s' % (tc.get('classname'), tc.get('name')))
            want = set(json.load(open('/root/.vp/BASELINE.json'))['stable_pass'])
            conf['baseline_missing'] = sorted(want - passed)[:10]
            os.unlink(out)
finally:
    subprocess.call(['git', '-C', '/repo', 'worktree', 'remove', '--force', wt])
props = [p for p in props if not p.startswith('--')]
caught = {}
if conf.get('patch_applies'):
    bk = tempfile.mkdtemp(prefix='ev_'); shutil.copytree('/verif/evidence', bk + '/evidence')
    subprocess.check_call(['git', '-C', '/repo', 'apply', os.path.join(dst, 'patch.diff')])
    try:
        for pr in props:
            r = subprocess.run(['./check', pr], cwd='/verif', capture_output=True, text=True)
            lines = [l for l in r.stdout.splitlines() if l.startswith('VIOLATION')]
            caught[pr] = dict(exit=r.returncode, violations=[l[:200] for l in lines[:6]])
    finally:
        subprocess.check_call(['git', '-C', '/repo', 'checkout', '--', '.'])
        shutil.rmtree('/verif/evidence'); shutil.copytree(bk + '/evidence', '/verif/evidence'); shutil.rmtree(bk)
if 'baseline_missing' not in conf and 'confirmed_by_us' in meta and 'baseline_missing' in meta['confirmed_by_us']:
    conf['baseline_missing'] = meta['confirmed_by_us']['baseline_missing']
meta['confirmed_by_us'] = conf
prev = dict(meta.get('checks_run') or {})
prev.update(caught)
meta['checks_run'] = prev
meta['caught_by'] = sorted(p for p, v in prev.items() if v['exit'] == 1)
json.dump(meta, open(os.path.join(dst, 'meta.json'), 'w'), indent=1)
print(json.dumps(dict(confirmation=conf, caught={p: (v['exit'], v['violations'][:2]) for p, v in caught.items()}), indent=1)[:1800])
