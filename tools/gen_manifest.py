#!/usr/bin/env python3
"""Regenerates MANIFEST.json from the table below (kept in one place so it always validates)."""
import json, os, sys
HERE = os.path.dirname(os.path.dirname(os.path.abspath(__file__)))
sys.path.insert(0, HERE)
from tools.manifest_table import CHECKS, NOT_APPLICABLE, FIX_COMMITS   # noqa

props = [json.loads(l)['id'] for l in open(os.path.join(HERE, 'properties.jsonl'))]
checks = []
for pid in props:
    if pid not in CHECKS:
        continue
    c = CHECKS[pid]
    checks.append({
        'property_id': pid,
        'quick_cmd': './check %s --tier quick' % pid,
        'thorough_cmd': './check %s --tier thorough' % pid,
        'evidence_file': 'evidence/%s.json' % pid,
        'replay_cmd_template': './check %s --replay {path}' % pid,
        'engine': 'pyvc',
        'level_claimed': {'category': c['category'], 'text': c['text'], 'design_ref': 'DESIGN.md section 3 / %s' % pid},
        'level_note': c['note'],
        'technique': c['technique'],
    })
na = [{'property_id': p, 'reason': NOT_APPLICABLE[p]} for p in props if p not in CHECKS]
man = {
    'version': 1,
    'setup_cmd': './setup.sh',
    'hooks': {
        'guard': 'PANQEC_VERIF',
        'enable': 'none needed: contracts are sidecar files under /verif/contracts and /verif/props; the bounded layer monkey-patches from the harness. PANQEC_VERIF=1 is exported by ./check but no code in /repo reads it.',
        'baseline_off_cmd': 'cd /repo && /venv/bin/python -m pytest -ra -q -p no:cacheprovider --timeout=900 --continue-on-collection-errors',
        'source_commits': [],
        'add_only': True,
    },
    'engines': [{
        'name': 'pyvc', 'path': 'pyvc/',
        'serves_properties': [c['property_id'] for c in checks],
        'kind_free_text': 'contract-based deductive verification: sidecar contracts over the real functions; VCs generated from the '
                          'AST of /repo on every run by a symbolic executor and discharged by z3 5.1 / cvc5 / z3 4.8; effect-and-frame '
                          'obligations by an ownership analysis over the same AST; counter-models replayed on the real code; '
                          'run-time contract layer (bounded, never counted as proved) for clauses outside the subset',
    }],
    'checks': checks,
    'not_applicable': na,
    'notes': 'fix: commits in /repo (unguarded repairs of genuine defects): %s. Known findings: known_findings.json.' % ', '.join(FIX_COMMITS),
}
json.dump(man, open(os.path.join(HERE, 'MANIFEST.json'), 'w'), indent=1)
try:
    import jsonschema
    jsonschema.validate(man, json.load(open('/root/.vp/MANIFEST.schema.json')))
    print('MANIFEST.json valid:', len(checks), 'checks,', len(na), 'not applicable')
except ImportError:
    print('written (jsonschema not available for validation)')
