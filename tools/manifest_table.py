FIX_COMMITS = ['056fe00 (C14)']
CHECKS = {
 'C14': dict(category='proof',
   text='For all (n_nodes, n_cores, n_inputs, trials, job_idx) - no bound - the body of run_parallel is executed symbolically and 10 '
        'nonlinear-integer obligations are discharged by z3: no raise when tasks >= inputs, tasks of an input form one contiguous block, '
        'per-input total = requested trials, >= 1 trial per task, distinct result files. A grid of concrete configurations through the '
        'real click callback (stubs for glob/Process/cpu_count) is the replay harness and bounded cross-check.',
   note='Assumed: python int = mathematical int; external calls (os.makedirs, print, glob, cpu_count, Process) per their stated contracts; '
        'str(k).zfill(w) injective on k >= 0; abspath(join(d,f)) injective in f. Trusted: z3, the pyvc executor (cross-checked natively on the grid).',
   technique='VCs from the AST of run_parallel (symbolic execution, spawn effect), z3 nonlinear integer arithmetic, lemma splitting'),
}
_PENDING = 'check under construction in this session (contract-based check planned in DESIGN.md section 3); not claimed until its command exists'
NOT_APPLICABLE = {p: _PENDING for p in ['C%02d' % i for i in range(1, 21)]}
