FIX_COMMITS = ['056fe00 (C14)', '194b898 (C18)', 'e5d1f9f (C05 sweep tie-break)', 'c0a262c (C10)', '7c606c6 (C20)', 'cbc693c (C05/C06 BP-OSD)', 'a832f8b (C06 XCube)', 'a7ca295 (C05 MBP)', '0d33a68 (C12)', '7651b61 (C13)', '9f095a3 (C19)', '7211c70 (C15)', '37a5699 (C05 XCube non-cubic)', '595bcf6 (C02/C03 sparse rows with unsorted indices)']
CHECKS = {
 'C14': dict(category='proof',
   text='For all (n_nodes, n_cores, n_inputs, trials, job_idx) - no bound - the body of run_parallel is executed symbolically and 10 '
        'nonlinear-integer obligations are discharged by z3: no raise when tasks >= inputs, tasks of an input form one contiguous block, '
        'per-input total = requested trials, >= 1 trial per task, distinct result files. A grid of concrete configurations through the '
        'real click callback (stubs for glob/Process/cpu_count) is the replay harness and bounded cross-check.',
   note='Assumed: python int = mathematical int; external calls (os.makedirs, print, glob, cpu_count, Process) per their stated contracts; '
        'str(k).zfill(w) injective on k >= 0; abspath(join(d,f)) injective in f. Trusted: z3, the pyvc executor (cross-checked natively on the grid).',
   technique='VCs from the AST of run_parallel (symbolic execution, spawn effect), z3 nonlinear integer arithmetic, lemma splitting'),
}
CHECKS['C18'] = dict(category='proof',
   text='error_probability is executed symbolically over abstract arrays with a symbolic qubit index and symbolic n; z3 discharges that the '
        'i-th factor is exactly the channel probability of the Pauli on qubit i (both the product and the log form), that the four factors of a '
        'qubit sum to p_I+p_X+p_Y+p_Z, and that get_next_error accepts with q = exp(min(0, logP(new)-logP(prev))) = min(1, P(new)/P(prev)). '
        'Bounded: all 4^n errors for n <= 5 through the real function (sum = 1, product formula).',
   note='Assumed: floats as reals; numpy elementwise/reduction semantics; binary error vectors; distributivity of sum over product (textbook); '
        'exp/log axioms for the Metropolis lemma; np.random.choice(p=...) honours p.',
   technique='pointwise VCs from the AST (abstract array domain), z3 linear real arithmetic + UF; 4^n enumeration as bounded cross-check')
CHECKS['C07'] = dict(category='proof',
   text='fast_choice, probability_distribution (plain and deformed, loop by the derived rule R-pointwise), generate + pauli_to_bsf, get_weights and '
        'update_probabilities are executed symbolically with a symbolic qubit index and symbolic n; 32 obligations (real arithmetic): inverse-CDF '
        'intervals of exact length p_k, per-qubit table = (1-p, p r_D(X), p r_D(Y), p r_D(Z)), non-negative and normalised, BSF bits of the drawn Pauli, '
        'p=0/p=1 extremes, LLR weights and their sign, conditional-probability update, no raise. Counter-models are replayed on the real functions; '
        'run-time contracts over every code class x deformation x axis as bounded cross-check.',
   note='Assumed: floats as reals (float cumulative-sum shortfall is outside the claim); rng.random() uniform on [0,1) and independent; numpy elementwise semantics; '
        'get_deformation returns a permutation (proved in C08); log strictly increasing. The BP-OSD channel priors are the wiring VC of BeliefPropagationOSDDecoder.decode (shared with C05), replayed by reading channel_probs back from the ldpc objects.',
   technique='pointwise VCs from the AST (abstract arrays, derived loop rule), z3 real arithmetic; counter-model replay; run-time contracts')
CHECKS['C01'] = dict(category='proof',
   text='For 15 of the 16 lattice classes get_stabilizer is executed symbolically at a symbolic location on a lattice of symbolic size; coordinate lists and '
        'logical supports are summarised by the derived builder rule. z3 discharges, with no bound on L: any two generators commute (15 classes, incl. the four '
        'colour codes), every listed logical commutes with every generator and X_i/Z_j anticommute iff i=j (11 classes; XCube for its L-dependent k). '
        'rank(H)=n-k, HollowRhombic, colour-code logicals, pairs whose overlap grows with L, and every clause on every deformed code are run-time contracts on '
        'real objects (bounded, named as such in the evidence). Parities are xor trees over the pair conditions and coordinates modulo a lattice period are linearised after a '
        'proved range side condition (rule discharged as C01.lemma[mod-linearisation]); both tiers discharge the same 157 obligations.',
   note='Supported-size families are preconditions. Trusted: z3 (LIA + qe), the pyvc executor and builder rule (every counter-model is replayed on the real '
        'class). Known findings F-C01-a/b/c (RotatedToric3D odd x odd, non-square Color488 / Color666Toric) are proved-around by conjoining the negated region.',
   technique='VCs from the AST of each lattice class with symbolic lattice size (symbolic execution + builder-rule summaries), z3 LIA; run-time contracts for rank')
CHECKS['C08'] = dict(category='proof',
   text='For every class x deformation name x axis, get_deformation is executed symbolically at a symbolic qubit location on a lattice of symbolic size: z3 proves it '
        'returns an involutive permutation of {X,Y,Z}, for XZZX the Hadamard exactly when qubit_axis(loc) equals the axis, for XY the Y<->Z swap, and that unknown '
        'names/axes raise. The three closures installed by deform() are shown (derived rule R-mapvalues) to return the pointwise image {k: D_k(v)} with the same key set; '
        'the noise model calls get_deformation with the same shape; a finite lemma shows every permutation is a symplectic GF(2)-linear map. History independence of '
        'deform(), the syndrome / logical-effect / probability identities are run-time contracts on real objects (bounded).',
   note='Assumed: qubit membership summarised by the builder rule; the MethodType/copy/hasattr capture protocol of deform() is outside the subset (bounded only). '
        'Trusted: z3, pyvc. bpauli.apply_deformation is not covered deductively.',
   technique='VCs from the AST of get_deformation / qubit_axis with symbolic location and lattice size; structural rule on the closures of deform; finite z3 lemma')
CHECKS['C02'] = dict(category='proof',
   text='Per lattice class, with symbolic lattice size: coordinate lists contain no duplicates, qubit and stabilizer coordinates are disjoint, every support '
        'entry of get_stabilizer is a qubit and supports are never empty (builder-rule summaries + symbolic get_stabilizer). For ANY code (uninterpreted location '
        'sort, index an arbitrary bijection): to_bsf and from_bsf satisfy their pointwise contracts by quantified inductive invariants whose step relation is the '
        'symbolically executed loop body of the real method, and are mutually inverse. The assembly of the parity-check matrix (stabilizer_matrix: counting loop '
        'invariant over a generic row and a generic key, dok copy, csr, data mod 2) gives row i = BSF image of generator i. CSS clauses over an uninterpreted matrix: '
        'x_indices / z_indices, is_css, Hx / Hz (mask-selected blocks, raise iff not CSS), extract_*_syndrome, partition lemma, sector lemma. Hash-order independence by '
        'a taint scan of the indexing functions. The same clauses on real objects (every class, deformations, use-then-deform histories, 200 random user-defined '
        'subclasses, 4 PYTHONHASHSEED values) are run-time contracts (bounded).',
   note='Assumed: numpy nonzero() lists columns ascending; dict keys()/items() visit each key once; a duplicate-free coordinate list makes qubit_index a bijection; '
        'scipy getnnz(1) counts the non-zero entries of a row (stored entries are ones), boolean-mask indexing keeps the masked rows in order, dok->csr keeps values; '
        'congruence of finite sums for the sector lemma.',
   technique='LIA VCs with symbolic lattice size; quantified loop invariants (ghost visited set) over the AST-derived loop body; taint scan; run-time contracts')
CHECKS['C10'] = dict(category='proof',
   text='For the four decoder/code pairs the real flip_edge and the real get_stabilizer are executed symbolically with symbolic lattice size, edge and face: z3 proves '
        'that the toggled face set of an edge equals the face stabilizers anticommuting with Z on it (for RotatedToric3D outside the known seam region F-C10-b), that every '
        'store into signs is a 0/1 toggle, and that nothing raises. StabilizerCode.site is proved to be the GF(2) Pauli toggle for X, Y, Z on an arbitrary operator; the update '
        'loop of sweep_move is shown to call flip_edge on the copied signs and to toggle the correction with Z exactly once per flipped edge; initial state and decode structure '
        'are checked structurally. Every sweep step of real decodes (all weight-1, sampled weight-2, random Z errors, tie-break seeds) is a run-time contract (bounded).',
   note='Assumed: GF(2)-linearity of the syndrome (C03) to lift the one-edge lemma to accumulated corrections; builder summaries; tie-break is arbitrary. The composition '
        '"signs = face syndrome of error+correction at every step" is a lemma over geom + site + update, not a separately discharged VC.',
   technique='LIA VCs with symbolic lattice size from the AST of flip_edge/get_stabilizer; functional-map model for site; structural rule on sweep_move; run-time contracts')
CHECKS['C17'] = dict(category='other',
   text='Proof part: StabilizerCode.d is executed symbolically over abstract k x 2n logical matrices and shown to be the minimum over BOTH matrices of the row weight '
        '|supp x U supp z|; with C01 every such row is a non-trivial logical, so d is an upper bound on the distance for every class and size. The lower bound (no lighter '
        'logical exists) has no contract within reach for unbounded L: it is decided only by an exact z3 pseudo-Boolean search on the real matrices for every class at every '
        'supported size with n <= 110 (quick) / 200 (thorough) and on every deformation (non-square sizes first), witnesses re-checked natively. Claimed level is therefore "other", not proof.',
   note='Trusted: z3 pseudo-Boolean search for the bounded part; C01 for non-triviality of the listed rows. No class overrides the generic d (structural clause).',
   technique='array VC from the AST of StabilizerCode.d (upper bound); exact bounded minimum-weight search for the lower bound')
CHECKS['C20'] = dict(category='other',
   text='Finite and complete: for each of the 16 classes the strings stabilizer_type can return on a stabilizer location are computed by symbolic execution with symbolic lattice '
        'size (one reachability query per string), and gui-config.json is checked to hold a complete drawable description (object, colours in the colormap literal, opacity, params) '
        'for each of them and for the qubits in both pictures the visualizer offers; the code and decoder menus and the request-key data flow of the noise model of /decode and /new-errors are checked on the AST. Request/response faithfulness '
        '(H, logicals, index order, decoder menu, /decode and /new-errors vs the library for every ordered pair of code / noise deformation) goes through the Flask test client on bounded sizes.',
   note='Assumed: main.js offers the rotated picture for every code (text scan). Class-specific overrides of *_representation and Flask/json are exercised only by the bounded layer.',
   technique='symbolic execution of stabilizer_type + cover queries; table lookup; Flask test client as run-time contract')
CHECKS['C06'] = dict(category='other',
   text='decode() of all nine decoder classes, together with every repository function it reaches, is analysed by an ownership-and-dependence abstract interpretation of the '
        'real AST: 45 frame/dependence obligations - no in-place write to the caller\'s syndrome, none to cached tables, no syndrome-dependent value stored in any field, every use of a third-party '
        'decoder object that can hold syndrome-conditioned channel probabilities is dominated (every path, case split over configuration tests) by a reset of those probabilities, the returned correction does not read unspecified state of third-party objects and depends only on '
        'allowed sources - plus frame clauses for the four noise-model functions. These are decided for every path and every array content, without a solver. History-independence '
        'itself is exercised on real objects (reused vs fresh decoder over syndrome histories incl. sector-pure syndromes and BP-OSD with channel_update, byte-wise comparison of arguments and cached tables) as bounded layer.',
   note='Assumed: numpy view/copy rules; third-party decode() returns a function of (matrix, current priors, syndrome) and does not modify its arguments; unknown calls do not write their '
        'arguments. UnionFind Support objects and decoders held in containers are not followed by the analysis (bounded only). Writes into containers OWNED by the decoder / noise-model object (memos, pre-drawn random blocks) make the clause undecided, not refuted: only the run-time contract decides them. Level "other": decided statically, not by an SMT proof.',
   technique='frame (assigns) and dependence obligations by abstract interpretation over the AST; reused-vs-fresh decoder run-time contract')
CHECKS['C05'] = dict(category='other',
   text='Deductive part: constructors and decode() of MatchingDecoder (all error_type / weights variants), UnionFindDecoder, BeliefPropagationOSDDecoder (CSS, non-CSS, channel update) and both '
        'sweep-match decoders are executed symbolically against sector-typed stand-ins of PyMatching / ldpc / Support: 13 obligations pin which parity-check block, which weight or prior '
        'vector (incl. the values p_x+p_y / p_z+p_y and the conditional update), which syndrome block and which output half go together, output length 2n, and allowed_codes sanity. '
        'Together with the ASSUMED completeness of the third-party decoders this yields syndrome reproduction. Validity on real objects (construct, no raise, shape, binary, syndrome '
        'reproduced, trivial->trivial) over every decoder x allowed codes x random-error syndromes is a bounded run-time contract; known findings F-C05-b/c are listed.',
   note='Assumed, not proved: PyMatching / ldpc / union-find Support return a solution of H c = s. Union-find internals (uf_support.py) are not analysed at all. Level "other".',
   technique='symbolic execution of the real wiring code against typed stand-ins of third-party decoders; z3 for the array/prior identities; run-time contracts')
CHECKS['C11'] = dict(category='other',
   text='run_once is executed symbolically against tagged stand-ins: every recorded field is shown to be the named function of error / correction (syndrome of the generated error, decoder '
        'called on that syndrome, effective error and codespace of (correction+error) mod 2, success <=> codespace and zero effective error; rates outside [0,1] raise); one generic iteration of '
        'DirectSimulation._run calls run_once on the simulation\'s own code, noise model, decoder, error rate and generator (arguments bound against the real signature), appends exactly one value per recorded list and increments n_runs (inductive step of len == n_runs); get_results is n_fail/n_runs with the stated standard error; '
        'a dependence analysis shows that run_once, generate, fast_choice and every decode() read no global random state on the seeded path. Calibration is a stated lemma over C04+C06+C07, '
        'cross-checked exactly (no statistics) by summing the channel over all 4^n errors on small codes; seeded runs are repeated in fresh processes and in chunks (bounded).',
   note='Assumed: numpy Generator determinism; C04/C06/C07 for the calibration lemma. Level "other": the unbiasedness claim itself is a composition lemma, not a discharged VC.',
   technique='VCs from symbolic execution of run_once / _run body / get_results; dependence analysis for RNG threading; exact 4^n enumeration as bounded cross-check')
CHECKS['C12'] = dict(category='other',
   text='Crash-atomicity of save_json is a crash-invariant obligation over an assumed POSIX effect model, decided on the AST (only effect on the results file: os.replace of a fully written, '
        'closed temporary file); the adoption rule of load_results (first record whose inputs - code, noise, decoder, method, real-valued error rate - are EQUAL, np.isclose not being equality; only existing keys) and the counting invariant of BatchSimulation._run (init/step/final: '
        'exactly max(N, n0) trials per simulation; a save in the last iteration) are discharged by z3 from the symbolically executed bodies. The real BatchSimulation is killed with os._exit at '
        'EVERY file-system effect point of a run (plain and gzip), restarted with more trials / an appended simulation, and the post-condition checked (exhaustive over effect points for the '
        'stated scenario).',
   note='Assumed: the POSIX model (truncate on open-for-write, prefix-closed writes, atomic replace, durable close). Byte-level torn states exist only through this model. Level "other".',
   technique='crash-invariant over an assumed effect model on the AST; z3 inductive invariant for the trial loop; kill-at-every-effect replay')
CHECKS['C13'] = dict(category='proof',
   text='Registry: every key of the CODES / DECODERS / ERROR_MODELS dict literals equals the name of the class bound to it (AST with import-alias resolution; complete for the literals). '
        'Round trips: StabilizerCode.__init__/params and PauliErrorModel.__init__/params are executed symbolically - cls(**obj.params) stores the same fields for every way of passing sizes; '
        'for each decoder every params key is a constructor parameter stored unmodified and every optional constructor parameter is recorded. Expansion: the case table of '
        '_parse_parameters_range, and one generic element of the itertools.product loops of expand_input_ranges / get_simulations carries exactly its four components (decoder built for '
        'exactly that code, model and rate); list of ranges = concatenation. Random specifications and every registered name through the real functions as bounded cross-check.',
   note='Assumed: itertools.product enumerates the Cartesian product exactly once each (the "none dropped, none duplicated" part rests on it plus the one-run-per-element obligation).',
   technique='AST registry check; symbolic execution of constructors/params; generic-iteration rule for the product loops; run-time contracts')
CHECKS['C19'] = dict(category='other',
   text='A slice of generate_input (the loop over bias ratios, everything it needs executed symbolically, dropped statements listed in the evidence) is run for two symbolic ratios: z3 (strings) '
        'proves the two iterations write different files, so each bias ratio keeps its own specification; the written ranges dict is shown to hold this iteration\'s direction, the parsed sizes '
        'and the rate list; get_direction_from_bias_ratio is proved (reals) to be non-negative, to sum to 1 and to put eta/(1+eta) (1 at infinity) on the chosen axis. The arithmetic '
        'slice of read_range_input is proved over the REALS (nonlinear): no value beyond max, every value on min + i*step, none dropped, nothing raised. Its floating-point behaviour '
        'is checked against an exact decimal oracle on a grid, and the real CLI output is read back through the simulator (bounded).',
   note='Assumed: str() of distinct bias ratios is distinct; reals for floats in the direction formula and the range clauses (A-real). Level "other" because floating-point rounding of the '
        'min:max:step clause is bounded only.',
   technique='string/real VCs from a symbolically executed slice of the CLI command; exact-decimal run-time oracle for the float range')
CHECKS['C03'] = dict(category='proof',
   text='bs_prod / _bs_prod_sparse are executed symbolically for every pair of argument classes {list-1d, list-2d, dense-1d, dense-2d, csr-2d} x dtypes {uint8, int64}, with symbolic widths '
        'and row counts (single-row variants separately): 114 obligations (quick tier) - ValueError exactly on odd or unequal widths; each of the two dot products has the summand and range of one half '
        'of the symplectic form (dot products are uninterpreted sums whose summand is checked); result = (S1+S2) mod 2 in {0,1} with the parity surviving the uint8 wrap-around; documented '
        'output shape. Lemmas over the summand: symmetric, zero on equal arguments, additive (=> syndrome GF(2)-linear), insensitive to mod-2 reduction. pauli_string_to_bvector / '
        'bvector_to_pauli_string by a derived append rule, with their inverse lemma. Exhaustive n <= 3 over all representation pairs, stacks to n = 600 with overlaps > 255 and all other '
        'converters (int, sparse rows, weights) are run-time contracts; results are fresh objects (no memoised mutable result: ownership clause + run-time mutation test).',
   note='P*: the numpy/scipy semantics of dot, slicing, reshape, %, + and csr .data are ASSUMED contracts (monitored by the bounded layer). The sparse branch requires binary entries. '
        'bvector_to_int / int_to_bvector / bsf_to_pauli / bsf_wt are bounded only.',
   technique='array-domain VCs from the AST (uninterpreted bilinear sums with summand/range obligations), z3 modular arithmetic; exhaustive small-n run-time contract')
CHECKS['C04'] = dict(category='other',
   text='For any code (abstract H, LX, LZ of symbolic shape): in_codespace(e) <=> every <H_i,e> = 0; get_effective_error = [<LZ_i,e> | <LX_i,e>] (first k bits flag X-type action) for one error and row-wise for stacks (k >= 2, k = 1 and 1-row branches); '
        'logical_errors passes (e, logicals_x, logicals_z); is_success = in_codespace and no logical error; coset/additivity lemmas. The step from "commutes with all generators and all listed '
        'logicals" to "is a product of generators" needs rank(H) = n-k, which is only bounded in C01 - hence level "other": that clause is decided by enumerating all 4^n residual errors on every '
        'library code with n <= 6 (quick) / 8 against an independent GF(2) row-space membership oracle, and by structured samples on larger codes.',
   note='Assumed: C03 (bs_prod contract incl. its (rows(a), rows(b)) shape for stacks), C01.logcomm, textbook symplectic linear algebra (M-sympl). The bounded layer also visits objects that were used and then deformed.',
   technique='composition VCs over the bs_prod contract from symbolic execution; exhaustive 4^n enumeration vs an independent GF(2) oracle')
CHECKS['C09'] = dict(category='other',
   text='What panqec itself contributes to minimum-weight matching is discharged deductively: the weights handed to PyMatching are the LLRs of the X-/Z-flip marginals, positive iff the marginal '
        'is below 1/2, and the X matcher works on (Hz, X-flip weights, Z-row syndrome), the Z matcher on (Hx, Z-flip weights, X-row syndrome). Optimality of PyMatching, union-find and the sweep rule '
        'have no contract within reach: optimality is checked against the full solution coset on 6-9 lattices x 5 noise models, and the correctable-set claims by exhaustive enumeration of all errors '
        'of weight <= floor((d-1)/2) (matching up to 5x5 / 4x5, union-find toric L >= 3) and all single-qubit errors for the sweep-match decoders on 3x3x3.',
   note='ASSUMED, not proved: PyMatching returns a minimum-weight solution. Level "other".',
   technique='LLR-weight and sector-wiring VCs (shared with C07/C05); exhaustive coset / correctable-set enumeration as run-time contract')
CHECKS['C15'] = dict(category='other',
   text='Helper formulas are discharged from the real source: standard error, word error rate with its propagated error, count_fails = set bits of the sector block over in-codespace rows, '
        'single_qubit_p_se holds the uncertainties (was a defect, fixed), n_trials = len(effective_error). The conservation claim itself goes through pandas groupby/aggregate/concat, which no contract '
        'here models: it is decided by run-time contracts only - synthetic multisets of trial records written as single file, many files, gzip, zip with nested json/json.gz, merge-results output and '
        'directory, with random splits and order, and Analysis(...) compared with independently pooled counts for every reported quantity.',
   note='NA: pandas semantics. Level "other"; nothing about aggregate() is counted as proved.',
   technique='formula VCs from symbolic execution; re-partitioning run-time contract over 6 container shapes')
CHECKS['C16'] = dict(category='other',
   text='Deductive part is small: fit_function is the documented ansatz (and equals utils.quadratic o utils.rescale_prob); the threshold entry takes median / 16% / 84% quantiles / std of column 0 '
        'of the same bootstrap array; get_fit_status returns success only after all defect checks. Recovery of a planted threshold depends on scipy curve_fit convergence, for which no contract is '
        'within reach: planted (p_th, nu, A, B, C) sets, 4 distances x 13 rates, rows and files permuted, must be recovered within tolerance, inside the reported CI and the data range, identically '
        'under permutation (deterministic: the bootstrap RNG is seeded in the code).',
   note='NA: optimiser convergence/accuracy. Level "other"; the headline claim rests on bounded runs only.',
   technique='formula / structural obligations on the AST; planted-parameter run-time contract')
_PENDING = 'check under construction in this session (contract-based check planned in DESIGN.md section 3); not claimed until its command exists'
NOT_APPLICABLE = {p: _PENDING for p in ['C%02d' % i for i in range(1, 21)]}
