#!/usr/bin/env python3
"""mutants.py [name-filter]  - regression of the machinery against small hand-made property-breaking edits.
Each edit is applied to a SCRATCH worktree of /repo (never to /repo), the named checks are run with PANQEC_REPO pointing at the scratch tree, the tree is reset.
Prints per mutant: exit code, obligations refuted / lost, ENGINE-MISMATCH notes.  A mutant is 'caught' iff a check exits 1; 'deductive' iff some obligation
(not only a bounded clause) reported it.  /verif/evidence is saved and restored (evidence must come from /repo itself)."""
import json, os, shutil, subprocess, sys, tempfile
M = [
    # (name, file, old, new, props)
    ('se-denominator', 'panqec/analysis.py', 'return np.sqrt(estimator*(1 - estimator)/(n_samples + 1))', 'return np.sqrt(estimator*(1 - estimator)/n_samples)', ['C15']),
    ('p_est-denominator', 'panqec/simulation/_direct_simulation.py', "simulation_data['n_fail']/simulation_data['n_runs']", "simulation_data['n_fail']/(simulation_data['n_runs'] + 1)", ['C11']),
    ('is_success-or', 'panqec/codes/base/_stabilizer_code.py', 'return (self.in_codespace(total_error) and\n                not self.is_logical_error(total_error))', 'return (self.in_codespace(total_error) or\n                not self.is_logical_error(total_error))', ['C04']),
    ('weights-no-complement', 'panqec/error_models/_base_error_model.py', '(total_p_x + eps) / (1 - total_p_x + eps)', '(total_p_x + eps) / (1 + eps)', ['C07', 'C09']),
    ('fast_choice-le', 'panqec/error_models/_pauli_error_model.py', '        if x < cum:\n            return options[i]', '        if x <= cum:\n            return options[i]', ['C07']),
    ('pauli_to_bsf-y', 'panqec/bpauli.py', "    zs = (ps == 'Z') + (ps == 'Y')", "    zs = (ps == 'Z')", ['C07', 'C03']),
    ('run_parallel-remainder', 'panqec/cli.py', '            n_runs += trials % n_tasks_per_input', '            n_runs += trials % n_tasks', ['C14']),
    ('effective-swap', 'panqec/bpauli.py', '    effective_Z = bs_prod(logicals_x, total_error)\n    effective_X = bs_prod(logicals_z, total_error)', '    effective_Z = bs_prod(logicals_z, total_error)\n    effective_X = bs_prod(logicals_x, total_error)', ['C04']),
    ('x_indices-block', 'panqec/codes/base/_stabilizer_code.py', '            Hx = self.stabilizer_matrix[:, :self.n]\n            self._x_indices', '            Hx = self.stabilizer_matrix[:, self.n:]\n            self._x_indices', ['C02']),
    ('to_bsf-y-only-x', 'panqec/codes/base/_stabilizer_code.py', "            if operator[qubit_location] in ['Y', 'Z']:\n                bsf_operator[self.n + self.qubit_index[qubit_location]] += 1", "            if operator[qubit_location] in ['Z']:\n                bsf_operator[self.n + self.qubit_index[qubit_location]] += 1", ['C02']),
    ('error_probability-px-mask', 'panqec/error_models/_base_error_model.py', "        prob_vector += px * np.logical_and(error[:code.n],\n                                           np.logical_not(error[code.n:]))", "        prob_vector += px * np.logical_and(error[:code.n],\n                                           error[:code.n])", ['C18']),
    ('error_probability-sum-not-prod', 'panqec/error_models/_base_error_model.py', "            prob = np.prod(prob_vector)", "            prob = np.sum(prob_vector)", ['C18']),
    ('batch-run-guard', 'panqec/simulation/_batch_simulation.py', "                if simulation.n_results < n_trials:\n                    simulation.run(1)", "                if simulation.n_results <= n_trials:\n                    simulation.run(1)", ['C12']),
    ('batch-last-save', 'panqec/simulation/_batch_simulation.py', "            if i_trial == n_trials - 1:\n                self.on_update(n_trials)\n                self.save_results()", "            if i_trial == n_trials:\n                self.on_update(n_trials)\n                self.save_results()", ['C12']),
    ('toric2d-xzzx-axis', 'panqec/codes/surface_2d/_toric_2d_code.py', "            if self.qubit_axis(location) == deformation_axis:\n                deformation = deformed_dict", "            if self.qubit_axis(location) != deformation_axis:\n                deformation = deformed_dict", ['C08']),
    ('toric2d-xy-map', 'panqec/codes/surface_2d/_toric_2d_code.py', "            deformation = {'X': 'X', 'Y': 'Z', 'Z': 'Y'}", "            deformation = {'X': 'Y', 'Y': 'X', 'Z': 'Z'}", ['C08']),
    ('bs_prod-dense-one-term', 'panqec/bpauli.py', "    commutes = (a_X.dot(b_Z.T) + a_Z.dot(b_X.T))\n", "    commutes = (a_X.dot(b_Z.T) + a_Z.dot(b_Z.T))\n", ['C03']),
    ('run_once-syndrome-of-correction', 'panqec/simulation/_direct_simulation.py', 'correction = decoder.decode(syndrome)', 'correction = decoder.decode(syndrome.copy() * 0 + syndrome)', ['C11']),
]
flt = sys.argv[1] if len(sys.argv) > 1 else ''
wt = tempfile.mkdtemp(prefix='mutwt_'); os.rmdir(wt)
subprocess.check_call(['git', '-C', '/repo', 'worktree', 'add', '-q', '--detach', wt, 'HEAD'])
bk = tempfile.mkdtemp(prefix='ev_'); shutil.copytree('/verif/evidence', bk + '/evidence')
rows = []
try:
    for name, rel, old, new, props in M:
        if flt and flt not in name:
            continue
        p = os.path.join(wt, rel); s = open(p).read()
        if s.count(old) != 1:
            print('%-34s pattern occurs %d times - SKIPPED' % (name, s.count(old))); continue
        open(p, 'w').write(s.replace(old, new))
        try:
            for pr in props:
                r = subprocess.run(['./check', pr], cwd='/verif', capture_output=True, text=True, env=dict(os.environ, PANQEC_REPO=wt, PYTHONPATH=wt))
                out = r.stdout.splitlines()
                vio = [l for l in out if l.startswith('VIOLATION')]
                ded = [l for l in vio if '.bounded' not in l]
                mism = [l for l in out if 'ENGINE-MISMATCH' in l]
                summ = [l for l in out if l.startswith(pr + ' tier=')]
                print('%-34s %s exit=%d %s deductive=%d bounded=%d mismatch=%d | %s' % (name, pr, r.returncode, 'CAUGHT' if r.returncode == 1 else 'missed', len(ded), len(vio) - len(ded), len(mism),
                                                                                       (summ[0].split('obligations=')[1][:60] if summ else r.stderr[-200:])))
                for l in mism[:2]:
                    print('      ', l[:260])
                rows.append((name, pr, r.returncode, len(ded), len(vio) - len(ded), len(mism)))
        finally:
            subprocess.check_call(['git', '-C', wt, 'checkout', '--', '.'])
finally:
    subprocess.call(['git', '-C', '/repo', 'worktree', 'remove', '--force', wt])
    shutil.rmtree('/verif/evidence'); shutil.copytree(bk + '/evidence', '/verif/evidence'); shutil.rmtree(bk)
