#!/usr/bin/env python3
"""writes /verif/preserving/README.md from /verif/preserving/*/meta.json"""
import json, glob, os
root = os.path.dirname(os.path.dirname(os.path.abspath(__file__)))
rows = []
for f in sorted(glob.glob(os.path.join(root, 'preserving', '*', 'meta.json'))):
    m = json.load(open(f)); rid = os.path.basename(os.path.dirname(f)); ev = m.get('first_evaluation') or m.get('evaluation', {})
    ch = {p: v for p, v in (ev.get('checks') or {}).items() if len(p) == 3}
    edits = m.get('changes') or m.get('edits') or []
    alarms = [p for p, v in ch.items() if v['exit'] != 0]
    lost = {p: v['lost'] for p, v in ch.items() if v.get('lost')}
    rows.append('| %s | %d edits in %s | %s | %s | %s | %s | %s |' % (rid, len(edits), ', '.join(sorted({os.path.basename(t) for t in ev.get('touched', [])})),
                ('holds before and after' if ev.get('property_holds_both') else 'NOT CONFIRMED') + (', behaviour differs' if (ev.get('behaviour_changed') or (m.get('digest_before') and m.get('digest_before') != m.get('digest_after'))) else ', digest unchanged'), 'pass' if ev.get('baseline_missing') == [] else str(ev.get('baseline_missing')),
                ', '.join(sorted(ch)), ', '.join(alarms) or 'none', ', '.join('%s:%d' % kv for kv in sorted(lost.items())) or '-'))
head = '''# Property-preserving changes of behaviour (false-alarm controls, second kind)

Each directory holds one patch written by a fresh sub-agent that saw only the text of one property and its own scratch worktree: 2-6 changes that ALTER observable behaviour
(another valid logical representative, another order of stabilizers / qubits / simulations, another but equivalent-in-distribution sampler, another sparse format, another
memoisation, another but still minimum-weight matching, another but still exact split of trials, extra validation of inputs that were never valid, ...) while the property,
read literally with its quantifier, stays true.  `holds.py` is the agent's own direct check of the property: it exits 0 on the unmodified AND on the changed tree and prints
digests that differ.  `tools/eval_preserving.py` re-confirms that and the pinned test-suite and runs every check whose functions under contract live in a touched file against
the patched scratch worktree.  Expected outcome: exit 0 everywhere.  A check that exits 1 here demands more than the property states (or its harness depends on an internal
detail) and was corrected in the machinery; DESIGN.md 9.7 lists each case.

| id | size | agent's property check | tests | checks run | false alarms (first outcome) | obligations lost (first outcome) |
|----|------|------------------------|-------|------------|------------------------------|----------------------------------|
'''
open(os.path.join(root, 'preserving', 'README.md'), 'w').write(head + '\n'.join(rows) + '\n')
print(len(rows))
