#!/usr/bin/env python3
"""writes /verif/refactors/README.md from /verif/refactors/*/meta.json"""
import json, glob, os
root = os.path.dirname(os.path.dirname(os.path.abspath(__file__)))
rows = []
for f in sorted(glob.glob(os.path.join(root, 'refactors', '*', 'meta.json'))):
    m = json.load(open(f)); rid = os.path.basename(os.path.dirname(f)); ev = m.get('first_evaluation') or m.get('evaluation', {})
    ch = {p: v for p, v in (ev.get('checks') or {}).items() if len(p) == 3}
    edits = m.get('edits') or []
    alarms = [p for p, v in ch.items() if v['exit'] != 0]
    lost = {p: v['lost'] for p, v in ch.items() if v.get('lost')}
    rows.append('| %s | %d edits in %s | %s | %s | %s | %s | %s |' % (rid, len(edits), ', '.join(sorted({os.path.basename(t) for t in ev.get('touched', [])})),
                'equal' if ev.get('digests_equal') else 'DIFFERENT', 'pass' if ev.get('baseline_missing') == [] else str(ev.get('baseline_missing')),
                ', '.join(sorted(ch)), ', '.join(alarms) or 'none', ', '.join('%s:%d' % kv for kv in sorted(lost.items())) or '-'))
head = '''# Behaviour-preserving refactorings (false-alarm controls)

Each directory holds one patch written by a fresh sub-agent that saw only the text of one property (and the files it names) and its own scratch worktree: 4-11
realistic refactorings of the functions that implement the property (renamed locals, loops <-> comprehensions, `.keys()` -> `.items()`, `dict.get`, extracted helpers,
early returns, equivalent arithmetic / numpy calls), with `equiv.py`, a script whose digest over tens of thousands of recorded outputs is identical on the unmodified and
the refactored tree.  `tools/eval_refactor.py` re-confirms both (digest, pinned test-suite) and runs every check whose functions under contract live in a touched file
against the patched scratch worktree.  Expected outcome: exit 0 everywhere - obligations may become `lost` (undecided, the bounded clause decides), never a `VIOLATION`.

Columns: *first outcome* is the result when the refactoring was first evaluated; `tools/regress_seeds.py` re-runs all of them (and all seeded changes) on the current machinery.

| id | size | digest | tests | checks run | false alarms (first outcome) | obligations lost (first outcome) |
|----|------|--------|-------|------------|------------------------------|----------------------------------|
'''
open(os.path.join(root, 'refactors', 'README.md'), 'w').write(head + '\n'.join(rows) + '\n')
print(len(rows))
