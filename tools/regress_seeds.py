#!/usr/bin/env python3
"""regress_seeds.py [jobs]  - every stored seeded change (/verif/seeded/*/patch.diff) is applied to its own SCRATCH worktree of /repo and the check of its own property is
run against it (PANQEC_REPO=<scratch>); expected: exit 1.  Every stored behaviour-preserving refactoring (/verif/refactors/*/patch.diff) and property-preserving change of behaviour (/verif/preserving/*/patch.diff) likewise with the checks recorded
in its meta.json; expected: exit 0.  /repo and /verif/evidence are not touched.  Prints one line per item and a summary; exit 1 if anything deviates."""
import glob, json, os, subprocess, sys, tempfile, threading
_GIT = threading.Lock()          # concurrent `git worktree add/remove` on one repository race on .git/worktrees
from concurrent.futures import ThreadPoolExecutor
jobs = int(sys.argv[1]) if len(sys.argv) > 1 else 3


def run(item):
    kind, d = item
    meta = json.load(open(os.path.join(d, 'meta.json')))
    if kind == 'seed':
        props = [os.path.basename(d)[:3]]
    else:
        props = sorted(p for p in (meta.get('evaluation', {}).get('checks') or {}) if len(p) == 3)
    wt = tempfile.mkdtemp(prefix='regwt_'); os.rmdir(wt)
    with _GIT:
        subprocess.check_call(['git', '-C', '/repo', 'worktree', 'add', '-q', '--detach', wt, 'HEAD'])
    out = []
    try:
        subprocess.check_call(['git', '-C', wt, 'apply', os.path.join(d, 'patch.diff')])
        for p in props:
            r = subprocess.run(['./check', p], cwd='/verif', capture_output=True, text=True,
                               env=dict(os.environ, PANQEC_REPO=wt, PYTHONPATH=wt, VERIF_NPROC='6', VERIF_EVIDENCE_DIR=os.path.join(wt, '.evidence')))
            summ = [l for l in r.stdout.splitlines() if l.startswith(p + ' tier=')]
            out.append((p, r.returncode, summ[0][summ[0].index('obligations='):][:90] if summ else r.stderr[-200:]))
    finally:
        with _GIT:
            subprocess.call(['git', '-C', '/repo', 'worktree', 'remove', '--force', wt])
    return kind, os.path.basename(d), out


items = [('seed', d) for d in sorted(glob.glob('/verif/seeded/C*')) if os.path.exists(d + '/patch.diff')]
if '--seeds-only' not in sys.argv:
    items += [('refactor', d) for d in sorted(glob.glob('/verif/refactors/R-*')) if os.path.exists(d + '/patch.diff')]
    items += [('preserving', d) for d in sorted(glob.glob('/verif/preserving/P-*')) if os.path.exists(d + '/patch.diff')]
if '--refactors-only' in sys.argv:
    items = [i for i in items if i[0] == 'refactor']
if '--preserving-only' in sys.argv:
    items = [i for i in items if i[0] == 'preserving']
bad = 0
with ThreadPoolExecutor(jobs) as ex:
    for kind, name, out in ex.map(run, items):
        for p, rc, summ in out:
            ok = (rc == 1) if kind == 'seed' else (rc == 0)
            bad += not ok
            print('%-9s %-7s %s exit=%d %s | %s' % (kind, name, p, rc, 'ok' if ok else '** UNEXPECTED **', summ), flush=True)
print('unexpected outcomes: %d' % bad)
sys.exit(1 if bad else 0)
