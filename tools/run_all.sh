#!/bin/sh
# runs every registered quick check on the current tree and validates the evidence (use before committing evidence)
cd "$(dirname "$0")/.."
TIER=${1:-quick}
[ -x .venv/bin/python ] || ./setup.sh >/dev/null 2>&1
for id in $(.venv/bin/python -c "import json;print(' '.join(c['property_id'] for c in json.load(open('MANIFEST.json'))['checks']))"); do
  /usr/bin/time -f "$id wall %es" ./check $id --tier $TIER 2>&1 | grep -v conda | grep -E "^(VIOLATION|KNOWN|NOTE|$id )" | cut -c1-220
done
.venv/bin/python tools/validate.py 2>&1 | grep -v conda | grep -v "^ok"
