#!/usr/bin/env python3
"""writes /verif/seeded/README.md: the table of seeded changes from /verif/seeded/*/meta.json (+ tests_confirmed.json)"""
import json, glob, os
root = os.path.dirname(os.path.dirname(os.path.abspath(__file__)))
rows = []
for f in sorted(glob.glob(os.path.join(root, 'seeded', '*', 'meta.json'))):
    m = json.load(open(f)); d = os.path.dirname(f); sid = os.path.basename(d)
    conf = dict(m.get('confirmed_by_us') or {})
    tc = os.path.join(d, 'tests_confirmed.json')
    if os.path.exists(tc):
        conf.update(json.load(open(tc)))
    tests = 'pass' if conf.get('baseline_missing') == [] else ('NOT CONFIRMED' if 'baseline_missing' not in conf else 'missing %d' % len(conf['baseline_missing']))
    demo = '%s/%s' % (conf.get('demo_without_change_exit'), conf.get('demo_with_change_exit'))
    how = []
    for p, v in (m.get('checks_run') or {}).items():
        for l in v.get('violations', [])[:3]:
            ob = l.split('replay=replays/')[1].split('.json')[0] if 'replay=' in l else ''
            ob = ob.split('-', 1)[1] if '-' in ob else ob
            how.append(ob + (' (no-failing-input-found)' if 'no-failing-input-found' in l else ''))
    missed = [p for p, v in (m.get('checks_run') or {}).items() if v.get('exit') == 0]
    rows.append('| %s | %s | %s | %s | %s | %s | %s | %s |' % (sid, m.get('property'), str(m.get('summary', ''))[:260].replace('|', '/').replace('\n', ' '),
                str(m.get('needs', ''))[:220].replace('|', '/').replace('\n', ' '), demo, tests, ', '.join(m.get('caught_by', [])) or '**missed**', '; '.join(how[:4])))
head = '''# Seeded changes

Each directory holds one property-breaking change written by a fresh sub-agent that saw only the text of one property and its own scratch worktree of
/repo (nothing from /verif): `patch.diff` (applies to /repo HEAD with `git apply`), `demo.py` (exits 1 with the change, 0 without; run as
`cd <tree> && /venv/bin/python demo.py`), `meta.json` (the agent's description, our confirmation and the outcome of the checks) and, where the test-suite
was confirmed separately, `tests_confirmed.json`.  Nothing here is ever committed to /repo: `tools/eval_seed.py <id> <dir> <props...>` confirms the change in a
scratch worktree, applies it to /repo, runs the named checks, and reverts /repo (`git checkout -- .`) straight afterwards.

Columns: *demo* = exit status of the demonstration without/with the change (must be 0/1); *tests* = the 773 pinned stable-pass tests still pass with the
change applied; *caught by* = checks that exit 1 with the change applied; *how* = the obligations / bounded clauses that reported it (first few).

| seed | property | what was changed | what it needs to manifest | demo | tests | caught by (exit 1) | how |
|------|----------|------------------|---------------------------|------|-------|--------------------|-----|
'''
open(os.path.join(root, 'seeded', 'README.md'), 'w').write(head + '\n'.join(rows) + '\n')
print('%d seeds' % len(rows))
