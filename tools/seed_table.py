#!/usr/bin/env python3
"""prints the markdown table of seeded changes from /verif/seeded/*/meta.json"""
import json, glob, os
print('| seed | property | what was changed | what it needs to manifest | caught by (exit 1) | how |')
print('|------|----------|------------------|---------------------------|--------------------|-----|')
for f in sorted(glob.glob(os.path.join(os.path.dirname(os.path.dirname(os.path.abspath(__file__))), 'seeded', '*', 'meta.json'))):
    m = json.load(open(f)); sid = os.path.basename(os.path.dirname(f))
    how = []
    for p, v in (m.get('checks_run') or {}).items():
        for l in v.get('violations', [])[:2]:
            ob = l.split('replay=replays/')[1].split('.json')[0] if 'replay=' in l else ''
            how.append(ob + (' (no-failing-input-found)' if 'no-failing-input-found' in l else ''))
    print('| %s | %s | %s | %s | %s | %s |' % (sid, m.get('property'), str(m.get('summary', ''))[:160].replace('|', '/'), str(m.get('needs', ''))[:160].replace('|', '/'),
                                            ', '.join(m.get('caught_by', [])) or '**missed**', '; '.join(how[:3])))
