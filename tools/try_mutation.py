#!/usr/bin/env python3
"""usage: try_mutation.py <relpath> <old> <new> <prop> [<prop>...]   - applies a textual edit to /repo, runs the checks, reverts.
Or: try_mutation.py --patch file.diff <prop>..."""
import subprocess, sys, os
args = sys.argv[1:]
if args[0] == '--patch':
    patch = os.path.abspath(args[1]); props = args[2:]
    subprocess.check_call(['git', '-C', '/repo', 'apply', patch])
else:
    rel, old, new = args[:3]; props = args[3:]
    p = os.path.join('/repo', rel); s = open(p).read()
    if s.count(old) != 1:
        print('pattern occurs %d times' % s.count(old)); sys.exit(2)
    open(p, 'w').write(s.replace(old, new))
import shutil, tempfile
backup = tempfile.mkdtemp(prefix='ev_')
shutil.copytree('/verif/evidence', backup + '/evidence')
try:
    for pr in props:
        r = subprocess.run(['./check', pr] + (['--tier', os.environ['TIER']] if os.environ.get('TIER') else []), cwd='/verif', capture_output=True, text=True)
        lines = [l for l in r.stdout.splitlines() if l.startswith(('VIOLATION', 'KNOWN', 'NOTE', pr))]
        print('exit', r.returncode, '|', ' || '.join(lines)[:900])
finally:
    subprocess.check_call(['git', '-C', '/repo', 'checkout', '--', '.'])
    shutil.rmtree('/verif/evidence'); shutil.copytree(backup + '/evidence', '/verif/evidence'); shutil.rmtree(backup)
