#!/usr/bin/env python3
import json, sys, glob, jsonschema
sch = json.load(open('/root/.vp/EVIDENCE.schema.json'))
ok = True
for f in sorted(glob.glob('evidence/*.json')):
    try:
        jsonschema.validate(json.load(open(f)), sch); print('ok  ', f)
    except Exception as e:
        ok = False; print('FAIL', f, str(e)[:300])
jsonschema.validate(json.load(open('MANIFEST.json')), json.load(open('/root/.vp/MANIFEST.schema.json')))
print('manifest ok')
sys.exit(0 if ok else 1)
